"""C14 Size rotation keeps every statement whole and in order within size/count bounds."""
import os
import shutil
import tempfile

from lib import vf

LEVEL = "model_checking"
FLAGS = ["-O1", "-g"]
SRC = ["engines/seqx/rot.cpp"]


def prebuild():
    vf.build("rot", SRC, FLAGS)


def configs(tier):
    out = []
    for scheme in ("index", "date", "datetime"):
        for backups in (0, 1, 2, -1):
            for overwrite in (1, 0):
                if backups == -1 and overwrite == 0:
                    continue
                for mode in ("a", "w"):
                    for remove_old in (1, 0):
                        if mode == "a" and remove_old == 0 and not (backups in (2, -1) and overwrite == 1):
                            # the clean-up setting has no meaning in append mode (the previous run's files are recovered either
                            # way): explored for two backup settings only, must behave exactly like remove_old = 1
                            continue
                        for plant in (0, 1):
                            if tier == "quick" and plant == 1 and not (backups in (1, -1) and overwrite == 1):
                                continue
                            out.append({"scheme": scheme, "backups": backups, "overwrite": overwrite, "mode": mode,
                                        "remove-old": remove_old, "plant": plant, "limit": 512})
    if tier == "thorough":
        for scheme in ("index", "date"):
            for backups in (1, 2):
                out.append({"scheme": scheme, "backups": backups, "overwrite": 1, "mode": "a", "remove-old": 1,
                            "plant": 0, "limit": 1024})
    # a second rotating sink `app.aux.log` with rotated files of its own lives in the same directory (its stem extends the
    # main sink's stem by a dotted component): neither sink may adopt, rename or delete the other's files
    for scheme in ("index", "date", "datetime"):
        for backups in ((1, -1) if tier == "quick" else (0, 1, 2, -1)):
            for mode in ("a", "w"):
                for overwrite in ((1,) if tier == "quick" or backups == -1 else (1, 0)):
                    out.append({"scheme": scheme, "backups": backups, "overwrite": overwrite, "mode": mode, "remove-old": 1,
                                "plant": 0, "limit": 512, "aux": 1})
    # file name shapes: no extension (`app` -> `app.1`), dotted stem (`app.v1.log` -> `app.v1.1.log`), start date appended by the sink
    # (FilenameAppendOption::StartDate: constructed with `app.log`, files `app_<date>.log`, `app_<date>.1.log`)
    for name in ("app", "app.v1.log", "app+date.log"):
        for scheme in ("index", "date", "datetime"):
            for backups in ((1, -1) if tier == "quick" else (0, 1, 2, -1)):
                for mode in ("a", "w"):
                    out.append({"scheme": scheme, "backups": backups, "overwrite": 1, "mode": mode, "remove-old": 1,
                                "plant": 0, "limit": 512, "name": name})
    return out


def depth_for(cfg, tier):
    if cfg.get("name"):
        if cfg["scheme"] == "index":
            return 5 if tier == "quick" else 7
        return 3 if tier == "quick" else 4
    if cfg.get("aux"):
        if cfg["scheme"] == "index":
            return 5 if tier == "quick" else 6
        return 3 if tier == "quick" else 4
    if cfg["scheme"] == "index":
        return 6 if tier == "quick" else 8
    return 4 if tier == "quick" else 5


def run_rot(ctx, exe, cfgs, alphabet, name):
    base = tempfile.mkdtemp(prefix="quill-verif-rot.", dir="/dev/shm" if os.path.isdir("/dev/shm") else None)
    try:
        jobs = []
        for i, c in enumerate(cfgs):
            args = ["--dir", os.path.join(base, "d%d" % i), "--alphabet", alphabet]
            for k, v in c.items():
                if k == "depth":
                    continue
                args += ["--" + k, v]
            args += ["--depth", c["depth"]]
            jobs.append((exe, args, max(30, ctx.time_left())))
        for rr in vf.run_many(jobs):
            ctx.absorb(rr, name)
    finally:
        shutil.rmtree(base, ignore_errors=True)


def run(ctx):
    ctx.rule = ("all write/restart histories up to the depth bound (sizes 200/312/313/600 against limit 512, clock steps "
                "0/1s/1day, restarts in append and write mode) per configuration (scheme x backups x overwrite x mode x "
                "clean-up x planted look-alike files x a second rotating sink with a dotted-extension stem in the same directory x file name shape: with extension, without, dotted stem); after every step the directory (file name -> statement ids) must "
                "equal a reference model of the rotation semantics; distinct = canonical states (directory + sink fields)")
    exe = vf.build("rot", SRC, FLAGS)
    ctx.set_deadline(240 if ctx.tier == "quick" else 1800)
    cfgs = configs(ctx.tier)
    for c in cfgs:
        c["depth"] = depth_for(c, ctx.tier)
    run_rot(ctx, exe, cfgs, "c14", "rot(c14)")
    ctx.distinct.update(range(int(ctx.stats.get("states", 0))))
    ctx.assumptions.append("the reference follows quill where the property is silent: an empty file is never rotated; a write-mode restart starts a new epoch whose leftovers are unconstrained")
    ctx.assumptions.append("scratch directory on tmpfs; timestamps supplied by the harness")


def replay(rep, extra):
    exe = vf.build("rot", SRC, FLAGS)
    rec = rep["record"]
    d = tempfile.mkdtemp(prefix="quill-verif-rot.", dir="/dev/shm" if os.path.isdir("/dev/shm") else None)
    try:
        args = ["--dir", os.path.join(d, "r"), "--replay", rec["case"]]
        for kv in rec["config"].split():
            k, v = kv.split("=", 1)
            k = k.replace("_", "-")
            if k == "tz" and "(" in v:
                zone = v[v.index("(") + 1:-1]
                v = v[:v.index("(")]
                args += ["--zone", zone]
            args += ["--" + k, v]
        rr = vf.run(exe, args, timeout=60)
        v = [r for r in rr.records if r.get("t") == "viol"]
        for x in v:
            print("VIOLATION property=%s replay=(given) detail=%s" % (rep["property"], x))
        return 1 if v else 0
    finally:
        shutil.rmtree(d, ignore_errors=True)
