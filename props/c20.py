"""C20 Exited threads' queues are drained, then reclaimed; shrinking loses nothing."""
from lib import vf, opxlib, wmmlib

LEVEL = "model_checking"
SRC = "engines/opx/sc_c20.cpp"


def prebuild():
    opxlib.build("sc_c20", SRC)
    wmmlib.build_sys()


def jobs(tier):
    js = []
    q = tier == "quick"
    for scn in ("c20.exit.ub", "c20.exit.bb"):
        for short in ((2,) if q else (1, 2, 3)):
            for live in (0, 1):
                for logs in ((1,) if q else (1, 2)):
                    js.append({"scenario": scn, "cfg": {"short": short, "live": live, "logs": logs, "tbuf": 1 if live else 2},
                               "bound": 2 if (q or short == 3) else 3, "deadline": 120 if q else 600})
    ns = [0, 1, 2, 100, 254, 255, 256, 257, 300, 511, 512, 513] if q else list(range(0, 301)) + [511, 512, 513, 1024]
    for n in ns:
        js.append({"scenario": "c20.sweep", "cfg": {"n": n, "stall_is_violation": 1}, "bound": 0, "deadline": 120})
    for burst in ((6,) if q else (2, 4, 6, 10)):
        for target in (64, 128, 256, 512, 1024, 4096):
            js.append({"scenario": "c20.shrink", "cfg": {"burst": burst, "target": target, "tbuf": 1}, "bound": 2, "deadline": 120})
            if target in (64, 256, 1024):
                # backend buffer capacities that are not powers of two (rounded up by the ring) and three statements buffered
                # together after the shrink
                for tbuf in ((3,) if q else (3, 5, 6)):
                    js.append({"scenario": "c20.shrink", "cfg": {"burst": burst, "target": target, "tbuf": tbuf, "after": 3}, "bound": 1 if q else 2, "deadline": 120})
            if target in (64, 256):
                js.append({"scenario": "c20.shrink", "cfg": {"burst": burst, "target": target, "tbuf": 1, "park": 1}, "bound": 1 if q else 2, "deadline": 120})
    return js


def sys_jobs(hs, tier):
    q = tier == "quick"
    sj = [wmmlib.sys_job(hs, "sys", 0, 2, "l1,x"), wmmlib.sys_job(hs, "sys", 0, 3, "l1,l2,x"), wmmlib.sys_job(hs, "sys", 0, 2, "r,l1,l2,l3,x"),
          wmmlib.sys_job(hs, "sys", 0, 2, "r,x"), wmmlib.sys_job(hs, "sys", 0, 2, "l1,x,l2,x"), wmmlib.sys_job(hs, "sysbd", 0, 2, "l1,l2,l3,l4,l5,x"),
          # growth (4th statement), shrink request, more statements: nothing lost or reordered across the node switches
          wmmlib.sys_job(hs, "sys", 0, 2, "l1,l2,l3,l4,k64,l5"),
          # a thread logs, exits and is joined; the joiner's flush_log() returns only after that thread's context was reclaimed
          wmmlib.sys_job(hs, "sys", 0, 1, "j0,f0", "l1,x0"),
          # a thread exits (its context is looked up and erased by the backend) while another one registers (the list grows)
          wmmlib.sys_job(hs, "sys", 1, 1, "r,x0", "r")]
    if not q:
        sj += [wmmlib.sys_job(hs, "sys", 0, 3, "r,l1,l2,l3,x", deadline=1500), wmmlib.sys_job(hs, "sys", 0, 3, "l1,x,l2,x", deadline=1500),
               wmmlib.sys_job(hs, "sys", 1, 1, "l1,x", "l1,x", deadline=1500), wmmlib.sys_job(hs, "sys", 1, 2, "l1,x", "l1,x", deadline=1500),
               wmmlib.sys_job(hs, "sys", 1, 1, "l1,x,l2", "x", deadline=1500),
               wmmlib.sys_job(hs, "sys", 0, 2, "l1,l2,l3,l4,l5,k64,l6,x0", deadline=1500), wmmlib.sys_job(hs, "sys", 0, 3, "l1,l2,l3,l4,k64,l5,k64", deadline=1500),
               wmmlib.sys_job(hs, "sys", 0, 1, "l1,j0,f0", "l1,l2,x0", deadline=1500)]
    return sj


def run(ctx):
    ctx.rule = ("(a) all schedules up to the preemption bound of 1-3 short-lived threads (log, exit) + an optional live thread "
                "against the preemptible backend; (b) exhaustive sweep over the number N of threads that start, log once and "
                "exit between two backend idle periods (two cycles each); (c) grow-by-burst then shrink(target) for every "
                "power-of-two target, interleaved with logging and backend steps, backend buffer initial capacities 1 and non-powers of two; after the drain the number of retained "
                "thread contexts must equal the number of live threads that logged; (d) whole-system exploration at atomic-operation granularity "
                "(Engine A): real registration, log calls and thread exit against 1-3 real backend polls (clean-up included), all interleavings and "
                "all C++11-admissible load values, then the backend drains alone: everything delivered once in order, contexts == live threads; "
                "distinct = distinct observable outcomes")
    ctx.set_deadline(170 if ctx.tier == "quick" else 1800)
    exe = opxlib.build("sc_c20", SRC)
    opxlib.run_jobs(ctx, exe, jobs(ctx.tier), "sc_c20")
    # below Engine B's granularity: real registration, log calls and thread exit (context invalidation) against real backend polls
    # incl. the clean-up of invalidated contexts, at every atomic operation and with every load value the C++11 model admits
    hs = wmmlib.build_sys()
    sj = sys_jobs(hs, ctx.tier)
    wmmlib.run_sys(ctx, sj)
    ctx.assumptions.append("frontend operations are atomic steps; backend preemptible at QUILL_VERIF_YIELD(1..4) and poll boundaries (sweep: poll boundaries only)")


def replay(rep, extra):
    if wmmlib.is_sys_record(rep["record"]):
        return wmmlib.replay_sys("C20", rep)
    return opxlib.replay("C20", opxlib.build("sc_c20", SRC), rep)
