"""C19 Named args give matching text, ordered key/value pairs, one JSON object per line."""
import json
import os
import shutil
import tempfile

from lib import vf

LEVEL = "model_checking"
FLAGS = ["-O1", "-g"]
SRC = ["engines/seqx/c19_named.cpp"]


def prebuild():
    vf.build("c19_named", SRC, FLAGS)


def _json_part(ctx, exe):
    d = tempfile.mkdtemp(prefix="quill-verif-c19.", dir="/dev/shm" if os.path.isdir("/dev/shm") else None)
    try:
        rr = vf.run(exe, ["--mode", "json", "--dir", d], timeout=300)
        ctx.absorb(rr, "c19 json")
        with open(os.path.join(d, "c19.json.log"), "rb") as fh:
            raw = fh.read().decode("utf-8", "replace")
        got_lines = raw.split("\n")
        if got_lines and got_lines[-1] == "":
            got_lines.pop()
        with open(os.path.join(d, "c19.expected.jsonl")) as fh:
            exp = [json.loads(l) for l in fh if l.strip()]
        if len(got_lines) != len(exp):
            ctx.violation({"kind": "json-line-count", "got": len(got_lines), "want": len(exp),
                           "case": "JSON sink must write exactly one line per statement"})
            return
        fixed = ["timestamp", "file_name", "line", "thread_id", "logger", "log_level", "message"]
        for line, e in zip(got_lines, exp):
            ctx.add("json_lines_parsed")
            try:
                pairs = json.loads(line, object_pairs_hook=list)
            except ValueError as err:
                ctx.violation({"kind": "json-unparsable", "line": line[:300], "error": str(err), "case": e["template"]})
                continue
            keys = [k for k, _ in pairs]
            want_keys = fixed + [k for k, _ in e["pairs"]]
            d2 = dict(pairs[:7])
            ok = (keys == want_keys and d2.get("message") == e["template"] and d2.get("logger") == e["logger"]
                  and d2.get("log_level") == e["level"] and d2.get("file_name") == e["file_name"]
                  and d2.get("line") == e["line"] and d2.get("timestamp") == e["timestamp"]
                  and [list(p) for p in pairs[7:]] == [list(p) for p in e["pairs"]])
            if not ok:
                ctx.violation({"kind": "json-object-mismatch", "line": line[:400], "want": e, "case": e["template"]})
            elif len(e["pairs"]) >= 3:
                ctx.sample({"json_line": line[:300]})
    finally:
        shutil.rmtree(d, ignore_errors=True)


def run(ctx):
    ctx.rule = ("templates: every token sequence over {a, space, ',', {{, }}, {x}, {y:>4}, {z:.2}, {n1}, {x:*^5}, {w::>6} (a colon inside the spec)} x value "
                "tuples (empty, spaces, ',', ':', quote/backslash, magic separator) vs an independent fmt-grammar scanner; "
                "orders: BFS to fixpoint over first-use histories of 8 templates, state = backend template-cache content, "
                "one forked process per history; LOGJ_ identifier menu and 26-variable limit; ring: every sequence of <= 5 backtrace statements over {two named, positional, argument-less} x ring capacity 1..3, two store/flush cycles - each replayed statement carries exactly its own pairs; JSON sink lines parsed with "
                "python json; distinct = distinct (template, expected message)")
    exe = vf.build("c19_named", SRC, FLAGS)
    ntok, nsh = (4, 16) if ctx.tier == "quick" else (6, 64)
    jobs = [(exe, ["--mode", "templates", "--ntok", ntok, "--shard", s, "--nshards", nsh], 1500) for s in range(nsh)]
    jobs.append((exe, ["--mode", "orders", "--depth", 12], 1500))
    jobs.append((exe, ["--mode", "logj"], 300))
    # backtrace ring slots reused by named / positional / argument-less statements
    jobs.append((exe, ["--mode", "ring"], 600))
    for rr in vf.run_many(jobs):
        ctx.absorb(rr, "c19_named")
    _json_part(ctx, exe)
    ctx.assumptions.append("reference scanner follows fmt's replacement-field grammar; string specs only in the enumerated part, numeric specs in the fixed LOG_/LOGJ_ statements")
    ctx.assumptions.append("non-printable bytes are expected in their sanitised \\xNN form (default check_printable_char)")


def replay(rep, extra):
    exe = vf.build("c19_named", SRC, FLAGS)
    rec = rep["record"]
    if "template" not in rec:
        print("replay supports template records only")
        return 2
    rr = vf.run(exe, ["--template", rec["template"]], timeout=60)
    v = [r for r in rr.records if r.get("t") == "viol"]
    for x in v:
        print("VIOLATION property=C19 replay=(given) detail=%s" % x)
    return 1 if v else 0
