"""C05 Output is in global timestamp order when enqueues respect the grace period."""
from lib import vf, opxlib

LEVEL = "model_checking"
SRC = "engines/opx/sc_c06.cpp"


LONG_SRC = ["engines/seqx/c03_long.cpp"]


def long_builds():
    return [vf.build("c03_long", LONG_SRC, ["-O1", "-g"]), vf.build("c03_long_bounded", LONG_SRC, ["-O1", "-g", "-DVF_BOUNDED=1"])]


def long_jobs(exes, tier):
    """deterministic histories: 40 statements of a thread that has exited, then 300 of the main thread, nothing polled in
    between or polled every 3 statements; the transit limits make every read pass end early, so the backend is in batch mode
    with one thread's backlog still in its queue while newer statements of the other thread are cached"""
    js = []
    for exe in exes:
        for tbuf, soft, hard in ((1, 1, 1), (2, 2, 2), (4, 4, 4), (2, 1, 8)) if tier == "quick" else ((1, 1, 1), (1, 1, 2), (2, 2, 2), (4, 4, 4), (2, 1, 8), (8, 8, 8), (4, 2, 16)):
            for cadence in (0, 3):
                for sizes in (0, 2):
                    js.append((exe, ["--tbuf", tbuf, "--soft", soft, "--hard", hard, "--cadence", cadence, "--polls", 1, "--sizes", sizes,
                                     "--dead", 1, "--n", 300], 300))
    return js


def prebuild():
    opxlib.build("sc_c06", SRC)
    long_builds()


def jobs(tier):
    js = []
    q = tier == "quick"

    def add(scn, bound, deadline=150, **cfg):
        js.append({"scenario": scn, "cfg": cfg, "bound": bound, "deadline": deadline})
    add("c05.ub", 2, grace=1, threads=2, calls=1, ksteps=3, soft=1, hard=1, tbuf=1)
    add("c05.ub", 1 if q else 2, grace=1, threads=2, calls=2, ksteps=2, soft=1, hard=2, tbuf=1)
    add("c05.bb", 1 if q else 2, grace=1, threads=2, calls=1, ksteps=4, soft=2, hard=2, tbuf=2)
    add("c05.ub", 1, grace=1, threads=3, calls=1, ksteps=3, soft=1, hard=1, tbuf=1)
    add("c05.ub", 1 if q else 2, grace=0, threads=2, calls=1, ksteps=2, soft=1, hard=1, tbuf=1)  # control: ordering disabled
    # the shutdown drain (Backend::stop / ~ManualBackendWorker) instead of ordinary polls writes what is left: same order
    add("c05.ub", 1, grace=1, threads=2, calls=2, ksteps=2, soft=1, hard=1, tbuf=1, exitdrain=1)
    add("c05.ub", 1, grace=1, threads=2, calls=2, ksteps=2, soft=2, hard=2, tbuf=1, exitdrain=1)
    # queue growth: a read pass that ends on the hard limit exactly at the end of the first buffer, batch mode, another
    # thread with a newer statement
    for na, hard in ((6, 4), (5, 4), (6, 2)):
        add("c05.grow", 1 if q else 2, grace=1, na=na, soft=hard, hard=hard, tbuf=hard, points=0)
    add("c05.grow", 1, grace=1, na=6, soft=4, hard=4, tbuf=4, points=1)
    # a thread logging for the first time while the backend is stalled between refreshing its list of threads and
    # reading its ordering clock, followed by a later statement of another thread
    add("c06.ub", 2, grace=1, adv=3, a=1, b=1, sleepadv_ns=2000, sync=1, noflush=1)
    add("c06.ub", 2, grace=1, adv=3, a=1, b=2, sleepadv_ns=2000, sync=1, noflush=1, soft=1, hard=1, tbuf=1)
    add("c06.ub", 2, grace=1, adv=0, a=1, b=2, sleepadv_ns=2000, sync=0, noflush=0)
    if not q:
        for soft, hard, tbuf in ((1, 1, 1), (1, 2, 2), (2, 2, 1), (2, 2, 2)):
            add("c05.ub", 3, 900, grace=1, threads=2, calls=2, ksteps=3, soft=soft, hard=hard, tbuf=tbuf)
            add("c05.bb", 3, 900, grace=1, threads=2, calls=1, ksteps=4, soft=soft, hard=hard, tbuf=tbuf)
            add("c05.ub", 2, 900, grace=1, threads=3, calls=1, ksteps=4, soft=soft, hard=hard, tbuf=tbuf)
    return js


def run(ctx):
    ctx.rule = ("all schedules up to the preemption bound of 2-3 frontends x 1-2 log calls, each call split into 'stamp' and "
                "'enqueue' steps by the interposed clock, a clock actor advancing virtual time in steps of half a grace period, "
                "and the backend preemptible before its ordering clock read, before each queue read and in the batch loop, the rest written by ordinary polls or by the shutdown drain; "
                "oracle: if every statement was enqueued within the grace period of its timestamp the sink sees non-decreasing "
                "timestamps, and each written timestamp equals the clock value its call read; distinct = distinct outcomes")
    ctx.set_deadline(170 if ctx.tier == "quick" else 1800)
    exe = opxlib.build("sc_c06", SRC)
    opxlib.run_jobs(ctx, exe, jobs(ctx.tier), "sc_c06(c05)")
    # long deterministic histories on an unbounded and on a bounded blocking queue: the statements of an exited thread (all
    # enqueued, with earlier timestamps, before the main thread's first) come out before the main thread's, whatever the limits
    for rr in vf.run_many(long_jobs(long_builds(), ctx.tier)):
        ctx.absorb(rr, "c03_long(order)")
    ctx.rule += ("; deterministic 340-statement histories (40 of an exited thread, then 300 of the main thread) on an unbounded and on a "
                 "bounded blocking queue x transit capacity / soft / hard limit x poll cadence: global order at the sink")
    # premise statistics from the distinct outcome keys are not available per execution; the harness reports them as events
    ctx.assumptions.append("executions in which some statement was enqueued later than the grace period after its timestamp are explored but not judged for order (premise false)")
    ctx.assumptions.append("system clock virtualised; TSC not controllable; user-clock loggers are outside the claim (grace check disabled for them by design)")


def replay(rep, extra):
    if "scenario" not in rep["record"]:
        print("deterministic long history (%s): re-run ./check C05" % rep["record"].get("case"))
        return 2
    return opxlib.replay("C05", opxlib.build("sc_c06", SRC), rep)
