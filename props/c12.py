"""C12 Sink line equals the pattern with every attribute substituted for the statement."""
from lib import vf

LEVEL = "exploration"
FLAGS = ["-O1", "-g"]
SRC = ["engines/seqx/c12_pattern.cpp"]


def prebuild():
    vf.build("c12_pattern", SRC, FLAGS)


def run(ctx):
    ctx.rule = ("cross product of attribute selections/orders (all ordered k-selections, all-16 rotations), per-attribute "
                "specs, literal separators (incl. %, %%, parentheses, braces), four value variants (normal / empty / "
                "braces+percent / 600 chars) compared with an independent substitution reference; end to end: every "
                "arrangement of <=3 newlines in <=4 segments x metadata on/off x run-time metadata x sink override; "
                "distinct = distinct (pattern, expected line) pairs")
    exe = vf.build("c12_pattern", SRC, FLAGS)
    jobs = []
    k, nsh = 3, 16
    for s in range(nsh):
        jobs.append((exe, ["--mode", "direct", "--k", k, "--shard", s, "--nshards", nsh], 1500))
    jobs.append((exe, ["--mode", "e2e", "--named", 1], 1500))
    for rr in vf.run_many(jobs):
        ctx.absorb(rr, "c12_pattern")
    ctx.assumptions.append("reference implements fmt's string sub-grammar [[fill]align][width][.precision]; ASCII values")
    ctx.assumptions.append("a message's lines are its newline-terminated pieces plus a final unterminated non-empty piece; the empty message is one empty line")


def replay(rep, extra):
    exe = vf.build("c12_pattern", SRC, FLAGS)
    rec = rep["record"]
    rr = vf.run(exe, ["--pattern", rec["pattern"]], timeout=60)
    v = [r for r in rr.records if r.get("t") == "viol"]
    for x in v:
        print("VIOLATION property=C12 replay=(given) detail=%s" % x)
    return 1 if v else 0
