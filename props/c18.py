"""C18 Backtrace: held back, then most recent N, in order, once."""
from lib import vf

LEVEL = "model_checking"
FLAGS = ["-O1", "-g", "-D_GLIBCXX_ASSERTIONS"]


def run(ctx):
    ctx.rule = ("explicit-state BFS to fixpoint over store/process/set_capacity(c) histories on the real "
                "BacktraceStorage (state = history replayed on a fresh object, canonical key = capacity, "
                "_index, rank pattern of stored ids and of the reference deque); distinct = canonical states")
    exe = vf.build("c18_ring", ["engines/seqx/c18_ring.cpp"], FLAGS)
    max_cap = 4 if ctx.tier == "quick" else 7
    rr = vf.run(exe, ["--max-cap", max_cap, "--max-depth", 200], timeout=600)
    ctx.absorb(rr, "c18_ring")
    ctx.distinct.update(range(ctx.stats.get("states", 0)))
    ctx.assumptions.append("ring level: ids are opaque to BacktraceStorage (moved, never compared), so rank-pattern canonicalisation is exact")
    ctx.assumptions.append("re-initialisation with a different capacity forgets stored statements; with the same capacity it keeps them (as set_capacity is written)")


def replay(rep, extra):
    exe = vf.build("c18_ring", ["engines/seqx/c18_ring.cpp"], FLAGS)
    rec = rep["record"]
    outs = []
    for _ in range(2):
        rr = vf.run(exe, ["--replay", rec["case"]], timeout=60)
        outs.append([r for r in rr.records if r.get("t") == "viol"])
    if outs[0] != outs[1]:
        print("NONDETERMINISM in replay")
        return 2
    for v in outs[0]:
        print("VIOLATION property=C18 replay=(given) detail=%s" % v)
    return 1 if outs[0] else 0
