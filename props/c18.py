"""C18 Backtrace: held back, then most recent N, in order, once."""
from lib import vf

LEVEL = "model_checking"
FLAGS = ["-O1", "-g", "-D_GLIBCXX_ASSERTIONS"]


def run(ctx):
    ctx.rule = ("explicit-state BFS to fixpoint over store/process/set_capacity(c) histories on the real "
                "BacktraceStorage (state = history replayed on a fresh object, canonical key = capacity, "
                "_index, rank pattern of stored ids and of the reference deque); distinct = canonical states; end to end: every history up to the depth bound over "
                "{LOG_BACKTRACE, LOG_INFO, LOG_ERROR, LOG_DYNAMIC(Info|Critical), flush_backtrace, init_backtrace(0|1|2+Error|3)} on "
                "logger 1 and {LOG_BACKTRACE, LOG_ERROR, flush_backtrace} on logger 2 through the real macros and backend")
    exe = vf.build("c18_ring", ["engines/seqx/c18_ring.cpp"], FLAGS)
    max_cap = 4 if ctx.tier == "quick" else 7
    rr = vf.run(exe, ["--max-cap", max_cap, "--max-depth", 200], timeout=600)
    ctx.absorb(rr, "c18_ring")
    exe2 = vf.build("c18_e2e", ["engines/seqx/c18_e2e.cpp"], FLAGS)
    depth = 5 if ctx.tier == "quick" else 7
    nsh = 16
    for rr in vf.run_many([(exe2, ["--depth", depth, "--shard", s, "--nshards", nsh], 1700) for s in range(nsh)]):
        ctx.absorb(rr, "c18_e2e")
    ctx.distinct.update(range(ctx.stats.get("states", 0)))
    ctx.assumptions.append("ring level: ids are opaque to BacktraceStorage (moved, never compared), so rank-pattern canonicalisation is exact")
    ctx.assumptions.append("re-initialisation with a different capacity forgets stored statements; with the same capacity it keeps them (as set_capacity is written)")


def prebuild():
    vf.build("c18_ring", ["engines/seqx/c18_ring.cpp"], FLAGS)
    vf.build("c18_e2e", ["engines/seqx/c18_e2e.cpp"], FLAGS)


def replay(rep, extra):
    rec = rep["record"]
    exe = vf.build("c18_ring" if rec.get("ring", True) else "c18_e2e",
                   ["engines/seqx/c18_ring.cpp" if rec.get("ring", True) else "engines/seqx/c18_e2e.cpp"], FLAGS)
    outs = []
    for _ in range(2):
        rr = vf.run(exe, ["--replay", rec["case"]], timeout=60)
        outs.append([r for r in rr.records if r.get("t") == "viol"])
    if outs[0] != outs[1]:
        print("NONDETERMINISM in replay")
        return 2
    for v in outs[0]:
        print("VIOLATION property=C18 replay=(given) detail=%s" % v)
    return 1 if outs[0] else 0
