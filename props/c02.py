"""C02 Unbounded queue keeps the record stream intact across growth/shrink, within cap."""
from lib import vf, wmmlib
from props import c01

LEVEL = "model_checking"


def prebuild():
    wmmlib.build()


def run(ctx):
    ctx.rule = ("stateful DFS (to closure) over every interleaving and every admissible atomic-load value on the real "
                "UnboundedSPSCQueue: producer sequences over write(n) for n in {1, cap/2, cap, cap+1, 2cap, max, max+1} and "
                "shrink(c), consumer passes with switch/free; node memory quarantined so that accesses to retired nodes/buffers "
                "are detected; allocation monitor on the queue's mmap calls; per (initial, max) pair incl. non-power-of-two "
                "maxima; states = canonical state/choice pairs")
    exe = wmmlib.build()
    if ctx.tier == "quick":
        jobs = wmmlib.unbounded_jobs(exe, [(8, 16), (8, 32)], 3)
        jobs += wmmlib.unbounded_jobs(exe, [(8, 24)], 2)
    else:
        jobs = wmmlib.unbounded_jobs(exe, [(8, 16), (8, 32), (8, 64), (16, 32), (16, 64)], 4, deadline=900, budget=2400)
        jobs += wmmlib.unbounded_jobs(exe, [(8, 24), (16, 48)], 3, deadline=900, budget=2400)
    ctx.set_deadline(200 if ctx.tier == "quick" else 3000)
    for rr in vf.run_many(jobs):
        ctx.absorb(rr, "h_queues(unbounded)")
    wmmlib.tsan_guard(ctx, "unbounded")
    ctx.distinct.update(range(int(ctx.stats.get("complete_executions", 0))))
    ctx.assumptions.append("as C01; additionally: every store to a location is by the previous writer or happens-after it (checked on every store), which makes the per-thread-history state key exact")
    ctx.assumptions.append("liveness verdicts (a fitting record never granted) are C09's; the non-power-of-two maximum corner is recorded there")
    keep = []
    for v in ctx.violations:
        if v.get("kind") in ("stall-on-empty-queue", "stall-on-empty-queue-nonpow2", "deadlock"):
            ctx.add("stalls_observed")
        else:
            keep.append(v)
    ctx.violations = keep
    ctx.known_hits = {k: v for k, v in ctx.known_hits.items()}


replay = c01.replay
