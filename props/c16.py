"""C16 A statement reaches a sink iff its level passes logger, sink and sink filters."""
from lib import vf, opxlib

LEVEL = "model_checking"
SRC_A = ["engines/seqx/c16_levels.cpp"]
SRC_C = "engines/opx/sc_c16.cpp"
FLAGS_A = ["-O1", "-g"]


def prebuild():
    vf.build("c16_levels", SRC_A, FLAGS_A)
    opxlib.build("sc_c16", SRC_C)


def run(ctx):
    ctx.rule = ("(a) complete product: statement kind {static macro, LOG_DYNAMIC, LOG_RUNTIME_METADATA; value macros LOGV_ and tags macros LOG_*_TAGS where the first sink has no filter} x 9 levels x logger level "
                "{9 levels, None} x two sinks each with threshold {TraceL3, Warning, Critical} x filter set {none, reject-odd, "
                "reject-all, both} x override pattern {none, on the second sink, on the first sink}, each statement with a side-effect argument; (b) a walk "
                "through every ordered pair of statement kinds (static/dynamic level, plain/named args, run-time metadata) with "
                "one backend event slot; (d) every ordered pair of logger formatter-option sets that differ in exactly one field (pattern, timestamp pattern, time zone, multi-line flag) or in none, with an optional third logger, each logger's sink must get lines rendered with its own options (the backend shares formatter objects between loggers with equal options); (c) all schedules up to the preemption bound of two logging threads + one thread "
                "changing the logger level / a sink threshold / adding a filter, against the preemptible backend; "
                "distinct = distinct (statement, configuration) cases + distinct schedule outcomes")
    ctx.set_deadline(170 if ctx.tier == "quick" else 1800)
    exe = vf.build("c16_levels", SRC_A, FLAGS_A)
    nsh = 16
    jobs = [(exe, ["--shard", s, "--nshards", nsh, "--hard", 1], 600) for s in range(nsh)]
    # the slot walk again with bursts that make the one-slot transit buffer grow (events are moved by _expand)
    jobs += [(exe, ["--only-slots", 1, "--hard", h], 600) for h in (2, 4, 8)]
    if ctx.tier == "thorough":
        jobs += [(exe, ["--shard", s, "--nshards", nsh, "--hard", 4], 600) for s in range(nsh)]
    # (d) formatter sharing between loggers whose options are equal / differ in exactly one field
    jobs += [(exe, ["--share", 1, "--hard", h], 600) for h in (1, 4)]
    for rr in vf.run_many(jobs):
        ctx.absorb(rr, "c16_levels")
    exe2 = opxlib.build("sc_c16", SRC_C)
    js = []
    for change in (0, 1, 2, 3):
        b = 2 if (ctx.tier == "thorough" or change != 3) else 1
        js.append({"scenario": "c16.ub", "cfg": {"change": change, "logs": 2, "tbuf": 1}, "bound": b if ctx.tier == "quick" else 3,
                   "deadline": 120 if ctx.tier == "quick" else 900})
    if ctx.tier == "thorough":
        for change in (0, 1, 2):
            js.append({"scenario": "c16.ub", "cfg": {"change": change, "logs": 3, "tbuf": 2}, "bound": 2, "deadline": 900})
    opxlib.run_jobs(ctx, exe2, js, "sc_c16")
    ctx.assumptions.append("(c): for a threshold / filter change the expected verdict is 'must be written', 'must not be written' or 'either' depending on whether the statement passes before and after the change (the change may land before or after the backend dispatches it)")


def replay(rep, extra):
    if "scenario" in rep["record"]:
        return opxlib.replay("C16", opxlib.build("sc_c16", SRC_C), rep)
    print("deterministic product: re-run ./check C16")
    return 2
