"""C07 Stopping, exiting or dying by a handled signal loses no completed statement."""
import concurrent.futures
import os
import shutil
import signal
import subprocess
import tempfile
import time

from lib import vf, wmmlib

LEVEL = "fault_enumeration"
SRC = ["engines/crashx/child.cpp"]
FLAGS = ["-O1", "-g"]

SIGS = {"segv": signal.SIGSEGV, "abrt": signal.SIGABRT, "fpe": signal.SIGFPE, "ill": signal.SIGILL,
        "int": signal.SIGINT, "term": signal.SIGTERM}
DESC = {"segv": "Segmentation fault", "abrt": "Aborted", "fpe": "Floating point exception", "ill": "Illegal instruction",
        "int": "Interrupt", "term": "Terminated"}


def prebuild():
    vf.build("crashx_child", SRC, FLAGS)
    wmmlib.build_sys()


def cases(tier):
    out = []
    q = tier == "quick"
    n = 3 if q else 4
    faults = ["stop", "exit", "return", "segv", "abrt", "fpe", "ill", "int", "term"]
    for fault in faults:
        for k in range(0, n + 1):
            for second in ("none", "finished", "alive"):
                pre = 0 if second == "none" else 2
                total = k + pre
                # position of the second thread's statements among the main thread's (0: it registers first)
                for tpos in ([0] if second == "none" else list(range(0, k + 1))):
                    # flusher thread: none, or just before the second thread (quick) / every position up to it (thorough)
                    if second == "none":
                        fposs = [-1, k] if q else [-1] + list(range(0, k + 1))
                    else:
                        fposs = [-1, tpos] if q else [-1] + list(range(0, tpos + 1))
                    for fpos in fposs:
                        js = list(range(0, total + 1))
                        if fault in ("stop", "exit", "return"):
                            js = js + [-1]          # backend asleep (woken only by notify/stop)
                        for j in js:
                            for clock in (("system",) if (q or fpos > 0) else ("system", "tsc")):
                                for cycles in ((1, 2) if (fault == "stop" and fpos < 0 and (not q or j in (0, -1))) else (1,)):
                                    # backend buffering limits: defaults, or one / two statements per queue and pass
                                    for lim in ((0, 1) if (q or clock == "tsc") else (0, 1, 2)):
                                        if lim and (second == "none" or cycles == 2):
                                            continue
                                        out.append({"fault": fault, "n": n, "k": k, "j": j, "clock": clock, "second": second,
                                                    "cycles": cycles, "tpos": tpos, "fpos": fpos, "lim": lim})
                                        # handled signals with the shutdown drain switched off (the signal part of the
                                        # property is unconditional): only the handler's own flush delivers the statements
                                        if fault in SIGS and fpos < 0 and lim == 0 and clock == "system" and (second == "none" or not q):
                                            out.append({"fault": fault, "n": n, "k": k, "j": j, "clock": clock, "second": second,
                                                        "cycles": cycles, "tpos": tpos, "fpos": fpos, "lim": lim, "nowait": 1})
    return out


def expected_lines(c):
    lines = ["M%d" % i for i in range(1, c["k"] + 1)]
    if c["second"] != "none":
        lines[c["tpos"]:c["tpos"]] = ["T1", "T2"]
    if c["fault"] in SIGS:
        num = int(SIGS[c["fault"]])
        lines.append("Received signal: %s (signum: %d)" % (DESC[c["fault"]], num))
        if c["fault"] not in ("int", "term"):
            lines.append("Program terminated unexpectedly due to signal: %s (signum: %d)" % (DESC[c["fault"]], num))
    if c["fault"] == "stop" and c["cycles"] == 2:
        lines += ["R1", "R2"]
    return lines


def run_case(exe, base, idx, c):
    path = os.path.join(base, "c%d.log" % idx)
    args = [exe, "--log", path]
    for k2, v in c.items():
        args += ["--" + k2, str(v)]
    t0 = time.time()
    try:
        p = subprocess.run(args, stdout=subprocess.PIPE, stderr=subprocess.PIPE, timeout=90)
        rc = p.returncode
        err = p.stderr.decode("utf-8", "replace")[-400:]
    except subprocess.TimeoutExpired:
        return c, "hang", "child did not end within 90 s", []
    try:
        with open(path, "rb") as fh:
            got = fh.read().decode("utf-8", "replace").split("\n")
        if got and got[-1] == "":
            got.pop()
    except OSError:
        got = None
    finally:
        try:
            os.unlink(path)
        except OSError:
            pass
    want = expected_lines(c)
    # wait status
    if c["fault"] in ("segv", "abrt", "fpe", "ill"):
        want_rc = -int(SIGS[c["fault"]])
    else:
        want_rc = 0
    if rc == -int(signal.SIGALRM):
        return c, "hang", "child killed by SIGALRM after %.0f s (its own safety alarm is 60 s, the signal handler's 20 s) stderr: %s" % (time.time() - t0, err), got or []
    if rc != want_rc:
        return c, "wrong-exit-status", "wait status %d, expected %d; stderr: %s" % (rc, want_rc, err), got or []
    if got is None:
        return c, "log-file-missing", "", []
    if c["fault"] in SIGS:
        # a handled signal guarantees the statements of the thread it hits (and the notice); those of other threads are not
        # demanded - they may be absent, but never duplicated or out of place
        for t in ("T1", "T2"):
            if t not in got and t in want:
                want = [x for x in want if x != t]
    if got != want:
        return c, "statements-lost-or-wrong", "file has %r expected %r" % (got[:12], want[:12]), got
    return c, "ok", "", got


def sys_jobs(hs, tier):
    sj = [wmmlib.sys_stop_job(hs, 0, 1, "l1,S0"), wmmlib.sys_stop_job(hs, 0, 2, "l1,l2,S0"), wmmlib.sys_stop_job(hs, 0, 0, "l1,l2,l3,l4,S0"),
          wmmlib.sys_stop_job(hs, 0, 1, "l1,x0,l2,S0")]
    if tier != "quick":
        sj += [wmmlib.sys_stop_job(hs, 1, 1, "l1,S0", "l1", deadline=1500), wmmlib.sys_stop_job(hs, 0, 3, "l1,l2,l3,S0", deadline=1500), wmmlib.sys_stop_job(hs, 1, 0, "l1,S0", "l1,x0", deadline=1500),
               wmmlib.sys_stop_job(hs, 0, 2, "l1,x0,l2,S0", deadline=1500)]
    return sj


def run(ctx):
    ctx.rule = ("every statement boundary k of a program of n statements x every fault {Backend::stop, exit, return from main, "
                "SIGSEGV, SIGABRT, SIGFPE, SIGILL, SIGINT, SIGTERM with the built-in handler} x backend progress at the fault "
                "(provably stuck in a gated sink after exactly j writes, j = 0..k, or asleep with a one-hour sleep) x clock source "
                "x second thread {none, finished, alive and parked} logging after the main thread's statement number tpos (so both "
                "registration orders occur) x optional flusher thread blocked in flush_log() from position fpos on x backend buffering limits {default, 1, 2 statements per queue and pass} x start/stop cycles {1, 2} x (handled signals) wait_for_queues_to_empty_before_exit {on, off}; each case is one child process on "
                "the real Backend::start thread, judged from outside by wait status and log file content; "
                "distinct = distinct (case, outcome) pairs")
    exe = vf.build("crashx_child", SRC, FLAGS)
    base = tempfile.mkdtemp(prefix="quill-verif-c07.", dir="/dev/shm" if os.path.isdir("/dev/shm") else None)
    cs = cases(ctx.tier)
    try:
        with concurrent.futures.ThreadPoolExecutor(max_workers=vf.NCPU) as ex:
            futs = [ex.submit(run_case, exe, base, i, c) for i, c in enumerate(cs)]
            results = [f.result() for f in futs]
        # a case that timed out under load is re-run alone before it is called a hang
        # (at most 12 of them: when re-runs keep hanging the remaining ones are reported as they are)
        reruns = confirmed_hangs = 0
        for i, (c, verdict, detail, got) in enumerate(results):
            if verdict == "hang" and (reruns < 12 and confirmed_hangs < 3):
                reruns += 1
                ctx.add("children_rerun_alone")
                ctx.notes.setdefault("rerun_alone", []).append(" ".join("--%s %s" % kv for kv in sorted(c.items())) + " :: " + detail[:200])
                results[i] = run_case(exe, base, 100000 + i, c)
                if results[i][1] == "hang":
                    confirmed_hangs += 1
        if True:
            for c, verdict, detail, got in results:
                ctx.add("evaluations")
                ctx.add("children")
                ctx.distinct.add(str(sorted(c.items())) + verdict)
                if verdict != "ok":
                    ctx.violation({"kind": verdict, "detail": detail, "case": " ".join("--%s %s" % kv for kv in sorted(c.items())),
                                   "fault": c["fault"], "backend_asleep": c["j"] < 0})
                elif len(ctx.samples) < 4 and c["k"] >= 2 and c["fault"] in ("segv", "stop", "term"):
                    ctx.sample({"case": c, "file": got})
    finally:
        shutil.rmtree(base, ignore_errors=True)
    # Backend::stop() below process granularity (Engine A, whole-system variant): the real stop() on a frontend thread against the
    # backend thread's loop (real _poll / _exit), at every atomic operation and with every load value the C++11 model admits:
    # when stop() has returned (request + join) every statement the stopping thread logged before is at the sink
    hs = wmmlib.build_sys()
    try:
        sj = sys_jobs(hs, ctx.tier)
    except vf.HarnessError as e:
        # the loop in BackendWorker::run changed shape: the replica does not apply, this part is skipped and reported as a cap
        sj = []
        ctx.capped("Backend::stop() exploration skipped: " + str(e)[:200])
    wmmlib.run_sys(ctx, sj)
    ctx.rule += ("; Backend::stop() at atomic-operation granularity (Engine A whole-system variant): real log calls and the real stop() against the "
                 "backend thread's loop and final drain, all interleavings and C++11-admissible load values")
    ctx.assumptions.append("the backend thread's two-line loop (while (running.load(order)) _poll(); _exit();) is replayed by the harness with the memory order read from the source; the driver fails if the loop in BackendWorker::run no longer has that shape")
    ctx.assumptions.append("backend progress at the fault is controlled at sink-write granularity (gated FileSink), not at finer points")
    ctx.assumptions.append("'backend asleep' (one-hour sleep) is enumerated for stop/exit/return, which wake the backend; a handled signal needs a backend that polls (documented: flush_log blocks for up to sleep_duration)")


def replay(rep, extra):
    if wmmlib.is_sys_record(rep["record"]):
        return wmmlib.replay_sys("C07", rep)
    exe = vf.build("crashx_child", SRC, FLAGS)
    rec = rep["record"]
    c = {}
    toks = rec["case"].split()
    for i in range(0, len(toks), 2):
        k = toks[i][2:]
        v = toks[i + 1]
        c[k] = int(v) if v.lstrip("-").isdigit() else v
    base = tempfile.mkdtemp(prefix="quill-verif-c07.", dir="/dev/shm" if os.path.isdir("/dev/shm") else None)
    try:
        _, verdict, detail, got = run_case(exe, base, 0, c)
    finally:
        shutil.rmtree(base, ignore_errors=True)
    print(verdict, detail)
    if verdict != "ok":
        print("VIOLATION property=C07 replay=(given) detail=%s %s" % (verdict, detail))
        return 1
    return 0
