"""C03 Every accepted statement reaches each sink of its logger once, in thread order."""
from lib import vf, opxlib, wmmlib

LEVEL = "model_checking"
SRC = "engines/opx/sc_c03.cpp"


LONG_SRC = ["engines/seqx/c03_long.cpp"]
LONG_FLAGS = ["-O1", "-g"]


def prebuild():
    wmmlib.build_sys()
    opxlib.build("sc_c03", SRC)
    vf.build("c03_long", LONG_SRC, LONG_FLAGS)


def long_jobs(exe, tier):
    js = []
    q = tier == "quick"
    first = True
    for tbuf in ((1, 4) if q else (1, 2, 3, 4)):
        for soft, hard in (((1, 1), (2, 4), (1, 8)) if q else ((1, 1), (1, 2), (2, 4), (4, 8), (1, 8), (8, 8))):
            for cadence in (0, 1, 3, 7):
                for polls in ((1,) if q else (1, 2)):
                    for sizes in (0, 1, 2, 3):
                        for dead in (0, 1):
                            js.append((exe, ["--tbuf", tbuf, "--soft", soft, "--hard", hard, "--cadence", cadence, "--polls", polls,
                                             "--sizes", sizes, "--dead", dead, "--n", 300, "--sample", 1 if first else 0], 300))
                            first = False
    return js


def jobs(tier):
    js = []
    if tier == "quick":
        grid = [("c03.ub", 0, 2, 2, 4), ("c03.ub", 1, 1, 1, 1), ("c03.bb", 3, 2, 2, 4), ("c03.ub", 3, 1, 1, 2),
                ("c03.bb", 1, 4, 4, 8), ("c03.ub", 2, 2, 1, 2), ("c03.ub", 6, 2, 2, 4), ("c03.ub", 7, 4, 4, 4)]
        for scn, shape, tbuf, soft, hard in grid:
            js.append({"scenario": scn, "cfg": {"shape": shape, "tbuf": tbuf, "soft": soft, "hard": hard}, "bound": 2, "deadline": 100})
    else:
        for scn in ("c03.ub", "c03.bb"):
            for shape in (0, 1, 2, 3, 4, 5, 6, 7, 8):
                for tbuf, soft, hard in ((1, 1, 1), (1, 1, 2), (2, 2, 4), (4, 4, 8), (1, 2, 8), (4, 1, 1)):
                    js.append({"scenario": scn, "cfg": {"shape": shape, "tbuf": tbuf, "soft": soft, "hard": hard},
                               "bound": 3 if shape in (0, 1, 3, 6) else 2, "deadline": 600})
    return js


def script_codes(maxlen):
    """all scripts of 1..maxlen operations over the four-letter alphabet, as base-5 numbers (digits 1..4)"""
    out = []

    def rec(prefix, n):
        if n == 0:
            return
        for d in (1, 2, 3, 4):
            code = prefix * 5 + d
            out.append(code)
            rec(code, n - 1)
    rec(0, maxlen)
    return out


def enum_jobs(tier):
    """every pair of scripts (thread 1, thread 2) up to the length bound - the operation combinations are enumerated, not
    hand-picked; low preemption bound per pair"""
    js = []
    q = tier == "quick"
    plans = [(2, 0)] if q else [(2, 1), (3, 0)]   # (script length bound, preemption bound)
    for maxlen, bound in plans:
        codes = script_codes(maxlen)
        for scn, tbuf, soft, hard in (("c03.ub", 2, 2, 4),) if q else (("c03.ub", 2, 2, 4), ("c03.bb", 1, 1, 2)):
            for a in codes:
                for b in codes:
                    js.append({"scenario": scn, "cfg": {"shape": -1, "t1": a, "t2": b, "tbuf": tbuf, "soft": soft, "hard": hard},
                               "bound": bound, "deadline": 120})
    return js


def sys_jobs(hs, tier):
    q = tier == "quick"
    sj = [wmmlib.sys_job(hs, "sys", 0, 2, "l1"), wmmlib.sys_job(hs, "sys", 0, 3, "l1,l2"), wmmlib.sys_job(hs, "sys", 0, 2, "l1,l2,l3,l4,l5"),
          wmmlib.sys_job(hs, "sysbd", 0, 2, "l1,l2,l3,l4,l5"), wmmlib.sys_job(hs, "sys", 1, 1, "l1", "l1"), wmmlib.sys_job(hs, "sys", 1, 1, "r,x0", "r")]
    if not q:
        sj += [wmmlib.sys_job(hs, "sys", 0, 3, "l1,l2,l3,l4,l5", deadline=1500), wmmlib.sys_job(hs, "sys", 1, 2, "l1", "l1", deadline=1500),
               wmmlib.sys_job(hs, "sys", 0, 1, "l1", "l1", deadline=1500), wmmlib.sys_job(hs, "sys", 1, 1, "l1,l2", "l1", deadline=1500),
               wmmlib.sys_job(hs, "sysbd", 1, 1, "l1,l2,l3,l4", "l1", deadline=1500)]
    return sj


def run(ctx):
    ctx.rule = ("all schedules up to the preemption bound of 2-3 frontend threads x 1-3 operations (small / near-capacity "
                "statements, flush_log() of another thread, two loggers sharing a sink, thread exit at the end of every script) against the real backend "
                "preemptible at its four yield hooks and poll boundaries; queue type x transit-buffer capacity x soft/hard "
                "limit grid; plus every pair of scripts of up to 2 (thorough: 3) operations over {small A, near-capacity A, small B, "
                "flush_log} under preemption bound 0 (thorough: length 2 under bound 1, length 3 under bound 0); one forked process per schedule; distinct = distinct observable outcomes (sink record sequences)")
    ctx.set_deadline(170 if ctx.tier == "quick" else 1800)
    exe = opxlib.build("sc_c03", SRC)
    opxlib.run_jobs(ctx, exe, jobs(ctx.tier), "sc_c03")
    opxlib.run_jobs(ctx, exe, enum_jobs(ctx.tier), "sc_c03(enum)", explorers=8, workers=2)
    # long deterministic histories (no schedule branching): 300 statements of mixed sizes (up to 9 KB: the 256-byte queue
    # grows through a chain of buffers), backend polled every 1/3/7 statements or only at the end, every limit triple
    lexe = vf.build("c03_long", LONG_SRC, LONG_FLAGS)
    for rr in vf.run_many(long_jobs(lexe, ctx.tier)):
        ctx.absorb(rr, "c03_long")
    # below Engine B's granularity: the real first use of a thread (context registration), the real log_statement and the real
    # BackendWorker::_poll interleaved at every atomic operation, with every load value the C++11 model admits
    hs = wmmlib.build_sys()
    sj = sys_jobs(hs, ctx.tier)
    wmmlib.run_sys(ctx, sj)
    ctx.rule += ("; whole-system exploration at atomic-operation granularity (Engine A): first use of one or two threads (real registration), real log "
                 "calls incl. queue growth / drops, against 1-3 real backend polls, then the backend drains alone: every completed call delivered once, in order")
    ctx.assumptions.append("frontend operations are atomic steps; the backend is preemptible at QUILL_VERIF_YIELD(1..4) and poll boundaries; sequentially consistent interleavings")
    ctx.assumptions.append("a blocked call that never completes is counted under stalls_observed and judged by C09, not here")


def replay(rep, extra):
    if wmmlib.is_sys_record(rep["record"]):
        return wmmlib.replay_sys("C03", rep)
    return opxlib.replay("C03", opxlib.build("sc_c03", SRC), rep)
