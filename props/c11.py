"""C11 A steady-state log call neither allocates nor formats on the calling thread."""
import concurrent.futures

from lib import vf

LEVEL = "exploration"
SRC = ["engines/seqx/c11_main.cpp"]
NSH = 8


def jobs_for(tier):
    js = [(0, s) for s in range(NSH)]
    for q in (1, 2, 3):
        js += [(q, s) for s in (range(NSH) if tier == "thorough" else [0])]
    return js


def build_all(tier):
    js = jobs_for(tier)

    def b(qs):
        q, s = qs
        return vf.build("c11_q%d_s%d" % (q, s), SRC,
                        ["-O0", "-DVF_QUEUE=%d" % q, "-DVF_SHARD=%d" % s, "-DVF_NSHARDS=%d" % NSH])
    with concurrent.futures.ThreadPoolExecutor(max_workers=16) as ex:
        return list(ex.map(b, js))


def prebuild():
    build_all("quick")


def run(ctx):
    ctx.rule = ("after preallocate() + one warm-up call: every single menu type and every pair inside the sub-menu x all "
                "value combinations, 0..12 C-string arguments (13 as the control that must allocate), string lengths up to "
                "the queue buffer, every macro family; thread-local allocation counters (malloc family, operator new, mmap) "
                "must not move across the call for the listed types; deferred formatters must run on the backend thread, "
                "direct ones on the caller; per queue type; distinct = distinct statements (type tuple + value indices)")
    exes = build_all(ctx.tier)
    for rr in vf.run_many([(e, [], 1700) for e in exes]):
        ctx.absorb(rr, "c11_main")
    ctx.assumptions.append("excluded by the property: direct-format types, filesystem paths, deferred types whose copy constructor allocates (still checked for the formatter-thread clause)")
    ctx.assumptions.append("allocation monitor = interposed malloc/calloc/realloc/memalign family, replaced operator new, interposed mmap; its sensitivity is proven on every run by the 13-C-string control")


def replay(rep, extra):
    print("C11 violations name the statement; re-run ./check C11 (deterministic enumeration)")
    return 2
