"""C08 Dropping queue: a statement is delivered intact or reported dropped, never both."""
from lib import vf, opxlib, wmmlib

LEVEL = "model_checking"
SRC = "engines/opx/sc_c08.cpp"


def prebuild():
    opxlib.build("sc_c08", SRC)
    wmmlib.build()
    wmmlib.build_sys()


def jobs(tier):
    js = []
    q = tier == "quick"
    for scn in ("c08.bd", "c08.ud"):
        for shape in range(8):
            for tbuf in ((2,) if q else (1, 2, 4)):
                js.append({"scenario": scn, "cfg": {"shape": shape, "tbuf": tbuf}, "bound": 2 if q else 3, "deadline": 100 if q else 600})
                if shape in (1, 2, 6, 7) and (not q or scn == "c08.bd"):
                    js.append({"scenario": scn, "cfg": {"shape": shape, "tbuf": tbuf, "cstr": 1}, "bound": 1 if q else 3, "deadline": 100 if q else 600})
    return js


def script_codes(maxlen):
    out = []

    def rec(prefix, n):
        if n == 0:
            return
        for d in range(1, 9):
            code = prefix * 9 + d
            out.append(code)
            rec(code, n - 1)
    rec(0, maxlen)
    return out


def enum_jobs(tier):
    """operation combinations enumerated instead of hand-picked: every script of thread 1 up to the length bound against a
    fixed second thread [small, flush_log] (and, thorough, every pair of scripts of length <= 2)"""
    js = []
    q = tier == "quick"
    second = 1 * 9 + 4          # [Small, Flush]

    def digits(c):
        out = []
        while c:
            out.append(c % 9)
            c //= 9
        return out

    def legal(a, b):
        # API preconditions, not part of the property: a logger is removed at most once, and backtrace operations come
        # from one thread only (the reference model of the backtrace ring follows that thread's program order)
        da, db = digits(a), digits(b)
        if (da + db).count(8) > 1:
            return False
        bt = {5, 6, 7}
        return not (bt & set(da) and bt & set(db))
    for scn in (("c08.bd",) if q else ("c08.bd", "c08.ud")):
        for a in script_codes(3):
            if not legal(a, second):
                continue
            for cstr in ((0,) if q else (0, 1)):
                js.append({"scenario": scn, "cfg": {"shape": -1, "t1": a, "t2": second, "tbuf": 2, "cstr": cstr}, "bound": 0, "deadline": 120})
        if not q:
            for a in script_codes(2):
                for b in script_codes(2):
                    if not legal(a, b):
                        continue
                    js.append({"scenario": scn, "cfg": {"shape": -1, "t1": a, "t2": b, "tbuf": 1}, "bound": 1, "deadline": 120})
    return js


def sys_jobs(hs, tier):
    sj = [wmmlib.sys_job(hs, "sysbd", 0, 2, "l1,l2,l3,l4,l5"), wmmlib.sys_job(hs, "sysbd", 0, 3, "l1,l2,l3,l4,x")]
    if tier != "quick":
        sj += [wmmlib.sys_job(hs, "sysbd", 0, 3, "l1,l2,l3,l4,l5,l6", deadline=1500), wmmlib.sys_job(hs, "sysbd", 1, 1, "l1,l2,l3,l4", "l1,l2", deadline=1500)]
    return sj


def run(ctx):
    ctx.rule = ("all schedules up to the preemption bound of 1-2 threads x up to 6 operations from {log small / half-capacity / "
                "oversize, flush_log, init_backtrace, LOG_BACKTRACE, flush_backtrace, remove_logger_blocking, thread exit} on "
                "BoundedDropping (256 B) and UnboundedDropping (128->256 B) queues, results of the real log_statement calls "
                "recorded; result false <=> never delivered, true <=> delivered once in order; sum of 'Dropped N' notifications "
                "== number of false results (bounded); the drop counter's increment / get-and-reset explored at atomic-operation granularity (Engine A); control requests take effect; plus every script of up to 3 operations over the eight "
                "operation kinds against a second thread [small, flush_log] under bound 0 (thorough: all pairs of scripts <= 2 under bound 1); distinct = distinct observable outcomes")
    ctx.set_deadline(170 if ctx.tier == "quick" else 1800)
    exe = opxlib.build("sc_c08", SRC)
    opxlib.run_jobs(ctx, exe, jobs(ctx.tier), "sc_c08")
    opxlib.run_jobs(ctx, exe, enum_jobs(ctx.tier), "sc_c08(enum)", explorers=8, workers=2)
    # the drop counter itself, below Engine B's granularity: the real increment (frontend) and get-and-reset (backend) of
    # ThreadContext under Engine A's explorer, every interleaving of their atomic operations and every admissible load value
    hq = wmmlib.build()
    n = 4 if ctx.tier == "quick" else 6
    batch = ";".join("i%d,g%d" % (i, g) for i in range(1, n + 1) for g in range(1, n))
    rr = vf.run(hq, ["--mode", "counter", "--ops-batch", batch, "--deadline", 300], timeout=1200)
    ctx.absorb(rr, "h_queues(counter)")
    # whole system on a 128-byte dropping queue: real log calls (some refused), real backend polls and drop reports
    hs = wmmlib.build_sys()
    sj = sys_jobs(hs, ctx.tier)
    wmmlib.run_sys(ctx, sj)
    ctx.assumptions.append("three outcomes of a log call: true, false, threw QuillError (accepted only for an unbounded queue and a statement larger than its maximum capacity)")


def replay(rep, extra):
    if wmmlib.is_sys_record(rep["record"]):
        return wmmlib.replay_sys("C08", rep)
    if rep["record"].get("mode") == "counter":
        exe = wmmlib.build()
        args = []
        for kv in rep["record"]["config"].split():
            k, v = kv.split("=", 1)
            args += ["--" + k, v]
        rr = vf.run(exe, args + ["--replay", rep["record"]["case"]], timeout=120)
        bad = [r for r in rr.records if r.get("t") == "viol"]
        for x in bad:
            print("VIOLATION property=C08 replay=(given) detail=%s" % x)
        return 1 if bad else 0
    return opxlib.replay("C08", opxlib.build("sc_c08", SRC), rep)
