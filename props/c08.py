"""C08 Dropping queue: a statement is delivered intact or reported dropped, never both."""
from lib import vf, opxlib

LEVEL = "model_checking"
SRC = "engines/opx/sc_c08.cpp"


def prebuild():
    opxlib.build("sc_c08", SRC)


def jobs(tier):
    js = []
    q = tier == "quick"
    for scn in ("c08.bd", "c08.ud"):
        for shape in range(8):
            for tbuf in ((2,) if q else (1, 2, 4)):
                js.append({"scenario": scn, "cfg": {"shape": shape, "tbuf": tbuf}, "bound": 2 if q else 3, "deadline": 100 if q else 600})
                if shape in (1, 2, 6, 7) and (not q or scn == "c08.bd"):
                    js.append({"scenario": scn, "cfg": {"shape": shape, "tbuf": tbuf, "cstr": 1}, "bound": 1 if q else 3, "deadline": 100 if q else 600})
    return js


def run(ctx):
    ctx.rule = ("all schedules up to the preemption bound of 1-2 threads x up to 6 operations from {log small / half-capacity / "
                "oversize, flush_log, init_backtrace, LOG_BACKTRACE, flush_backtrace, remove_logger_blocking, thread exit} on "
                "BoundedDropping (256 B) and UnboundedDropping (128->256 B) queues, results of the real log_statement calls "
                "recorded; result false <=> never delivered, true <=> delivered once in order; sum of 'Dropped N' notifications "
                "== number of false results (bounded); control requests take effect; distinct = distinct observable outcomes")
    ctx.set_deadline(170 if ctx.tier == "quick" else 1800)
    exe = opxlib.build("sc_c08", SRC)
    opxlib.run_jobs(ctx, exe, jobs(ctx.tier), "sc_c08")
    ctx.assumptions.append("three outcomes of a log call: true, false, threw QuillError (accepted only for an unbounded queue and a statement larger than its maximum capacity)")


def replay(rep, extra):
    return opxlib.replay("C08", opxlib.build("sc_c08", SRC), rep)
