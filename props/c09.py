"""C09 A blocked log call resumes once the backend made room; no stall on empty queue."""
from lib import vf, opxlib, wmmlib

LEVEL = "model_checking"
SRC = "engines/opx/sc_c20.cpp"


def prebuild():
    opxlib.build("sc_c20", SRC)
    wmmlib.build()
    wmmlib.build_sys()


def jobs(tier):
    js = []
    q = tier == "quick"
    sizes = sorted(set(list(range(48, 1025, 64 if q else 8)) + [1000, 1008, 1016, 1024, 973, 972, 974]))
    for scn in ("c09.bb", "c09.ub", "c09.bd", "c09.ud"):
        for pre, prepad in ((0, 0), (1, 0), (2, 0), (3, 0), (1, 200), (2, 450)) if not q else ((1, 0), (3, 0), (2, 450)):
            for size in sizes:
                js.append({"scenario": scn, "cfg": {"pre": pre, "prepad": prepad, "size": size, "stall_is_violation": 1, "consume_each": 1},
                           "bound": 1, "deadline": 60})
        # statements ahead not individually awaited: the amount already consumed is decided by the schedule;
        # small backend limits so that a read pass can end on the hard limit exactly when the queue is drained
        for size in (512, 900, 1000, 1024):
            js.append({"scenario": scn, "cfg": {"pre": 2, "prepad": 100, "size": size, "stall_is_violation": 1, "consume_each": 0},
                       "bound": 2, "deadline": 120})
        for soft, hard, tbuf in ((1, 1, 1), (2, 2, 2), (1, 2, 1)) if not q else ((2, 2, 2), (1, 1, 1)):
            for pre in (1, 2, 3):
                for size in (1000, 1024) if q else (512, 900, 1000, 1016, 1024):
                    js.append({"scenario": scn, "cfg": {"pre": pre, "prepad": 0, "size": size, "stall_is_violation": 1, "consume_each": 0,
                                                        "soft": soft, "hard": hard, "tbuf": tbuf}, "bound": 1 if q else 2, "deadline": 120})
    return js


def sys_jobs(hs, tier):
    sj = [wmmlib.sys_job(hs, "sysbb", 0, 1, "l1,l2,l3,l4,l5"), wmmlib.sys_job(hs, "sysbb", 0, 2, "l1,l2,l3,l4"), wmmlib.sys_job(hs, "sys", 0, 1, "l1,l2,l3,l4,l5,l6,l7,l8,l9,l10")]
    if tier != "quick":
        sj += [wmmlib.sys_job(hs, "sysbb", 0, 2, "l1,l2,l3,l4,l5,l6,l7", deadline=1500), wmmlib.sys_job(hs, "sysbb", 1, 1, "l1,l2,l3,l4", "l1,l2", deadline=1500)]
    return sj


def run(ctx):
    ctx.rule = ("end to end on the real logger with 1024-byte queues (bounded/unbounded-at-maximum, blocking/dropping): "
                "histories of 0-3 earlier statements (36 / 244 / 494 bytes), fully consumed or consumed as the schedule "
                "decides, followed by a statement of every size in the grid up to the capacity; all schedules up to the "
                "preemption bound; a call that never returns (no actor enabled) or a fitting statement rejected on an empty "
                "queue is the violation; queue level: every terminal drained state of the Engine A explorations x every request size; "
                "distinct = distinct observable outcomes")
    ctx.set_deadline(170 if ctx.tier == "quick" else 1800)
    exe = opxlib.build("sc_c20", SRC)
    opxlib.run_jobs(ctx, exe, jobs(ctx.tier), "sc_c20(c09)", explorers=8, workers=2)
    # queue level (Engine A): in every execution of the C01/C02 explorations a blocked producer must be served, and in
    # every terminal state in which the consumer has drained the queue every request up to the capacity must be granted
    qexe = wmmlib.build()
    if ctx.tier == "quick":
        qjobs = wmmlib.bounded_jobs(qexe, ["u8"], [8, 16], [5, 50, 100], [0, 1], 3)
        qjobs += wmmlib.bounded_jobs(qexe, ["u8"], [32, 64], [5, 25], [0], 2)
        qjobs += wmmlib.unbounded_jobs(qexe, [(8, 16), (8, 32)], 2)
        qjobs += wmmlib.unbounded_jobs(qexe, [(8, 24)], 2)
    else:
        qjobs = wmmlib.bounded_jobs(qexe, ["u8", "u16", "u64"], [8, 16, 32, 64], [0, 5, 25, 50, 100], [0, 1], 3, deadline=900, budget=2400)
        qjobs += wmmlib.unbounded_jobs(qexe, [(8, 16), (8, 32), (16, 64)], 3, deadline=900, budget=2400)
        qjobs += wmmlib.unbounded_jobs(qexe, [(8, 24), (16, 48)], 3, deadline=900, budget=2400)
    nviol_before = len(ctx.violations)
    for rr in vf.run_many(qjobs):
        ctx.absorb(rr, "h_queues(c09)")
    # safety verdicts of these runs belong to C01/C02 (reported by their checks); keep the liveness ones here
    ctx.violations = ctx.violations[:nviol_before] + [v for v in ctx.violations[nviol_before:]
                                                      if v.get("kind") in ("stall-on-empty-queue", "stall-on-empty-queue-nonpow2", "deadlock")]
    # whole system on a 128-byte blocking bounded queue (and the unbounded one at its 256-byte maximum): real log calls that
    # block, real backend polls on demand; a call still waiting after them is the violation
    hs = wmmlib.build_sys()
    sj = sys_jobs(hs, ctx.tier)
    wmmlib.run_sys(ctx, sj)
    ctx.assumptions.append("liveness is expressed as: with the backend polling, the blocked call must return before the system reaches a state in which no actor can act (virtual time is advanced twice before calling it a stall)")


def replay(rep, extra):
    if wmmlib.is_sys_record(rep["record"]):
        return wmmlib.replay_sys("C09", rep)
    return opxlib.replay("C09", opxlib.build("sc_c20", SRC), rep)
