"""C04 Async-formatted message equals formatting the arguments at the call site."""
import concurrent.futures

from lib import vf

LEVEL = "exploration"
SRC = ["engines/seqx/c04_main.cpp"]
NSH = 16


def flags(shard, thorough):
    f = ["-O0", "-fsanitize=address", "-fno-omit-frame-pointer", "-DVF_SHARD=%d" % shard, "-DVF_NSHARDS=%d" % NSH]
    f.append("-DVF_TRIPLES=1" if thorough else "-DVF_QUICK=1")
    return f


def build_all(thorough):
    with concurrent.futures.ThreadPoolExecutor(max_workers=NSH) as ex:
        return list(ex.map(lambda s: vf.build("c04_s%d" % s, SRC, flags(s, thorough)), range(NSH)))


def prebuild():
    build_all(False)


def run(ctx):
    ctx.rule = ("every single of the 56 menu types and every ordered pair (quick: pairs inside a 23-type sub-menu covering every codec family; thorough: all 56x56) of menu types (arithmetic, enum, pointers, C strings incl. null, "
                "string/string_view incl. embedded NUL and non-printables, std containers/optional/pair/tuple/chrono/path, "
                "nestings, deferred POD / deferred non-trivial / direct user types) x all value combinations of their "
                "alphabets; thorough adds triples over the variable-length sub-menu; originals destroyed and backing "
                "storage overwritten+freed before the backend runs (ASan build); distinct = distinct (type tuple, expected text)")
    exes = build_all(ctx.tier == "thorough")
    env = {"ASAN_OPTIONS": "detect_leaks=0:abort_on_error=1"}
    # three sanitisation configurations: default predicate, check disabled, user predicate (tabs and UTF-8 bytes pass)
    for rr in vf.run_many([(e, ["--sanit", str(m)], 1700, env) for m in (0, 1, 2) for e in exes]):
        ctx.absorb(rr, "c04_main")
    ctx.assumptions.append("oracle = fmtquill::format at the call site, then the configured non-printable sanitisation (default predicate / disabled / a user predicate letting tabs and bytes >= 0x80 through) applied by an independent re-implementation")
    ctx.assumptions.append("normalisations: null C string renders empty; unordered containers with more than one element compared as character multisets")


def replay(rep, extra):
    print("C04 violations name the type tuple and value indices; re-run ./check C04 (deterministic enumeration)")
    return 2
