"""C06 flush_log() returns only after all earlier statements are written and flushed."""
from lib import vf, opxlib, wmmlib

LEVEL = "model_checking"
SRC = "engines/opx/sc_c06.cpp"


def prebuild():
    opxlib.build("sc_c06", SRC)
    wmmlib.build_sys()


def jobs(tier):
    js = []
    q = tier == "quick"

    def add(scn, bound, deadline=150, **cfg):
        js.append({"scenario": scn, "cfg": cfg, "bound": bound, "deadline": deadline})
    # ordering enabled: statements of other (first-time) threads completed before the flush must be visible
    add("c06.ub", 2, grace=1, adv=3, a=1, b=1, sleepadv_ns=2000, sync=1, flushint_ms=200)
    add("c06.ub", 1 if q else 2, grace=1, adv=1, a=1, b=2, sleepadv_ns=0, sync=0, soft=1, hard=1, tbuf=1)
    # ordering disabled: own statements only; real file read back; concurrent flusher
    add("c06.ub", 2, grace=0, adv=0, a=2, b=1, file=1, flushint_ms=200)
    # the same with a FileSink that has a before_write hook (other write path inside the sink)
    add("c06.ub", 1, grace=0, adv=0, a=2, b=1, file=2, flushint_ms=200)
    add("c06.ub", 1 if q else 2, grace=0, adv=0, a=1, b=1, f3=1, flushint_ms=200)
    # no virtual time passes except while a caller sleeps in flush_log (longer than the grace period): a cut-off taken once
    # per read pass keeps the order, one that moves inside the pass does not
    add("c06.ub", 2, grace=1, adv=0, a=1, b=2, sleepadv_ns=2000, sync=0)
    # each logger lists the shared sink first and a sink of its own after it: every sink of the logger is written and flushed
    add("c06.ub", 2, grace=0, adv=0, a=1, b=1, layout=1, flushint_ms=200)
    if not q:
        add("c06.ub", 2, grace=0, adv=0, a=1, b=1, f3=1, layout=1, flushint_ms=200)
    add("c06.ub", 1 if q else 2, grace=1, adv=1, a=1, b=1, layout=1, flushint_ms=200, sleepadv_ns=2000)
    # the other thread's queue has grown to a second buffer while the read pass ended on the hard limit at the end of the
    # first one; batch processing of the cached events
    add("c05.grow", 1, grace=1, na=6, soft=4, hard=4, tbuf=4, points=0, flush=1, sleepadv_ns=2000)
    add("c05.grow", 1, grace=1, na=6, soft=2, hard=2, tbuf=2, points=0, flush=1, sleepadv_ns=2000)
    # dropping queue nearly full: the flush request is rejected and retried, never counted as dropped
    add("c06.bd", 1 if q else 2, grace=0, adv=0, a=2, apad=84, b=1)
    add("c06.bd", 2, grace=0, adv=0, a=3, apad=84, b=0, f2=0)
    if not q:
        add("c06.ub", 2, grace=1, adv=3, a=1, b=1, sleepadv_ns=2000, sync=0)
        add("c06.ub", 2, grace=1, adv=3, a=2, b=1, sleepadv_ns=2000, sync=1, soft=1, hard=2)
    if not q:
        for soft, hard, tbuf in ((1, 1, 1), (1, 2, 1), (4, 4, 2), (2, 8, 4)):
            for sync in (0, 1):
                for adv in (1, 3):
                    add("c06.ub", 3, 900, grace=1, adv=adv, a=1, b=1, sleepadv_ns=2000, sync=sync, soft=soft, hard=hard, tbuf=tbuf)
            add("c06.ub", 3, 900, grace=0, adv=0, a=2, b=2, file=1, soft=soft, hard=hard, tbuf=tbuf)
            add("c06.ub", 2, 900, grace=1, adv=3, a=1, b=1, f3=1, sleepadv_ns=2000, sync=1, soft=soft, hard=hard, tbuf=tbuf)
            add("c06.bd", 3, 900, grace=0, adv=0, a=2, apad=84, b=1, soft=soft, hard=hard, tbuf=tbuf)
    return js


def sys_jobs(hs, tier):
    q = tier == "quick"
    sj = [wmmlib.sys_job(hs, "sys", 0, 1, "l1,f0"), wmmlib.sys_job(hs, "sys", 0, 2, "l1,l2,f0,l3"), wmmlib.sys_job(hs, "sys", 0, 1, "f0,l1,f0"),
          wmmlib.sys_job(hs, "sysbd", 0, 1, "l1,l2,l3,l4,f0"), wmmlib.sys_job(hs, "sysbd", 0, 1, "l1,l2,l3,f0,l4"),
          wmmlib.sys_job(hs, "sys", 1, 0, "l1,f0", "l1"), wmmlib.sys_job(hs, "sys", 1, 1, "f0", "l1")]
    if not q:
        sj += [wmmlib.sys_job(hs, "sys", 0, 2, "l1,l2,l3,l4,f0", deadline=1500), wmmlib.sys_job(hs, "sys", 1, 1, "l1,f0", "l1", deadline=1500),
               wmmlib.sys_job(hs, "sys", 1, 1, "l1,f0", "f0", deadline=1500), wmmlib.sys_job(hs, "sys", 0, 1, "f0", "l1", deadline=1500)]
    return sj


def run(ctx):
    ctx.rule = ("all schedules up to the preemption bound of: F1 {log.., [idle until written], flush_log(), probe at the instant it "
                "returns}, F2 (first-time logger) {log..}, optional concurrent flusher, against the backend preemptible before its "
                "ordering clock read, before every queue read, in the batch loop and in the idle branch; virtual time advanced by "
                "the operations and by every sleep; grace 0 / 1us, UnboundedBlocking / nearly full BoundedDropping, sink flush interval 0 / 200 ms, recording sink "
                "with flush marks and a real FileSink read back, loggers sharing one sink and owning another; distinct = distinct observable outcomes")
    ctx.set_deadline(170 if ctx.tier == "quick" else 1800)
    exe = opxlib.build("sc_c06", SRC)
    opxlib.run_jobs(ctx, exe, jobs(ctx.tier), "sc_c06")
    # below Engine B's granularity: real first use, real log calls and the real flush_log() (request + wait loop) against real
    # backend polls at every atomic operation; at the instant flush_log returns the caller's earlier statements are at the sink;
    # a flush_log that is still waiting after the backend polled on demand is a violation
    hs = wmmlib.build_sys()
    sj = sys_jobs(hs, ctx.tier)
    wmmlib.run_sys(ctx, sj)
    ctx.rule += ("; whole-system exploration at atomic-operation granularity (Engine A): real registration, log calls and flush_log of one or two "
                 "threads against real backend polls, all interleavings and C++11-admissible load values")
    ctx.assumptions.append("system clock virtualised (1 ns per read, explicit advances, sleeps advance at least the requested time); TSC not controllable; user clock outside the claim")


def replay(rep, extra):
    if wmmlib.is_sys_record(rep["record"]):
        return wmmlib.replay_sys("C06", rep)
    return opxlib.replay("C06", opxlib.build("sc_c06", SRC), rep)
