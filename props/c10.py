"""C10 A statement that cannot be formatted or a sink that throws disturbs nothing else."""
from lib import vf, opxlib

LEVEL = "model_checking"
SRC = "engines/opx/sc_c10.cpp"
SRC_SINKS = ["engines/seqx/c10_sinks.cpp"]
FLAGS_SINKS = ["-O1", "-g"]


def prebuild():
    opxlib.build("sc_c10", SRC)
    vf.build("c10_sinks", SRC_SINKS, FLAGS_SINKS)


FAULTS = [{}, {"s1w": 1}, {"s1w": 2}, {"s1w": 3}, {"s1f": 1}, {"s1f": 2}, {"s2w": 1}, {"s2w": 2}, {"s2w": 3}]


K = 11          # statement kinds, encoded in base 16


def code(kinds):
    return sum(k * 16 ** i for i, k in enumerate(kinds))


def jobs(tier):
    js = []
    q = tier == "quick"

    def add(kinds, fault, two, bound, deadline=120):
        h = code(kinds)
        cfg = {"n": len(kinds), "h": h, "two": two}
        if kinds[1] % 2 == 0:
            cfg.update({"tbuf": 1, "soft": 1, "hard": 1})  # one backend event slot, reused by every statement
        cfg.update(fault)
        js.append({"scenario": "c10.ub", "cfg": cfg, "bound": bound, "deadline": deadline})
    # (A) one thread: every history of n statements over the eleven kinds x every single sink fault position
    for a in range(K):
        for b in range(K):
            for f in FAULTS:
                add((a, b), f, 0, 1 if (not q or f in (FAULTS[0], FAULTS[4])) else 0)
    if q:
        # length 3 in the quick tier: kinds {ok, missing argument, formatter throws int, named, zero arguments, named + throws int}
        sub = (0, 1, 3, 6, 7, 9)
        for a in sub:
            for b in sub:
                for c in sub:
                    for f in (FAULTS[0], FAULTS[2], FAULTS[7]):
                        add((a, b, c), f, 0, 0)
    else:
        for a in range(K):
            for b in range(K):
                for c in range(K):
                    for f in FAULTS:
                        add((a, b, c), f, 0, 1)
        sub = (0, 1, 3, 5, 6, 7, 9)
        for a in sub:
            for b in sub:
                for c in sub:
                    for d in sub:
                        for f in (FAULTS[0], FAULTS[2], FAULTS[4], FAULTS[7]):
                            add((a, b, c, d), f, 0, 0)
    # (B) two threads / two loggers sharing sink 2: each kind of unformattable statement in the middle
    for kind in ((1, 3, 6, 7, 9) if q else range(K)):
        for f in ((FAULTS[0], FAULTS[4], FAULTS[7]) if q else FAULTS):
            add((0, kind, 0), f, 1, 1 if q else 2, 300)
    return js


def run(ctx):
    ctx.rule = ("(A) every history of 2-3 (thorough: 4) statements over {ok, ok with named arguments, run-time format string with a missing argument, placeholders "
                "with no arguments at all, user formatter throwing std::runtime_error / int / a non-std class (also inside a statement with named arguments), LOG_BACKTRACE without init} x every position of a "
                "single std::exception thrown by sink 1's write, sink 1's flush or sink 2's write, followed by flush_log(); (B) the "
                "same with a second thread logging through a second logger that shares sink 2, all schedules up to the preemption "
                "bound; every other statement delivered once in order, one notification per fault (no flood), flush_log returns and the sink "
                "after a sink whose flush threw is flushed all the same, "
                "the backend becomes quiescent; distinct = distinct observable outcomes")
    ctx.set_deadline(170 if ctx.tier == "quick" else 1800)
    exe = opxlib.build("sc_c10", SRC)
    opxlib.run_jobs(ctx, exe, jobs(ctx.tier), "sc_c10", explorers=8, workers=2)
    # (C) faults raised inside the library's own sinks (their before_write hook throws on chosen writes), files read back;
    # a sink failing on one of the statements replayed from the backtrace ring
    import os, shutil, tempfile
    d = tempfile.mkdtemp(prefix="quill-verif-c10.", dir="/dev/shm" if os.path.isdir("/dev/shm") else None)
    try:
        ctx.absorb(vf.run(vf.build("c10_sinks", SRC_SINKS, FLAGS_SINKS), ["--dir", d], timeout=600), "c10_sinks")
    finally:
        shutil.rmtree(d, ignore_errors=True)
    ctx.rule += ("; (C) FileSink / JsonFileSink / RotatingFileSink / RotatingJsonFileSink whose before_write hook throws on one or two of "
                 "five writes (every position), named and positional statements, handled one by one or in one batch: the file holds every "
                 "other statement once, whole and in order, each failure reported and no failure reported for other statements; a sink that "
                 "throws on the 1st / 2nd / 3rd statement replayed by flush_backtrace() or by an error statement: only that statement is "
                 "missing, nothing is written twice by the next backtrace flush")
    ctx.assumptions.append("sinks throw std::exception-derived errors only (as the property states); user formatters throw anything")


def replay(rep, extra):
    if "scenario" not in rep["record"]:
        print("deterministic sink-fault case (%s): re-run ./check C10" % rep["record"].get("case"))
        return 2
    return opxlib.replay("C10", opxlib.build("sc_c10", SRC), rep)
