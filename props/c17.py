"""C17 Removing/re-creating loggers never loses statements nor frees state in use."""
from lib import vf, opxlib, wmmlib

LEVEL = "model_checking"
SRC = "engines/opx/sc_c17.cpp"
SRC_REG = ["engines/seqx/c17_registry.cpp"]
ENV = {"ASAN_OPTIONS": "detect_leaks=0:abort_on_error=1:detect_stack_use_after_return=0"}


def prebuild():
    opxlib.build("sc_c17_asan", SRC, opxlib.ASAN)
    opxlib.build("sc_c17", SRC)
    vf.build("c17_registry", SRC_REG, ["-O1"])
    wmmlib.build_sys()


def jobs(tier, asan):
    js = []
    q = tier == "quick"
    for shape in range(8):
        for tbuf in ((2,) if q else (1, 2)):
            if asan:
                b = 1 if q else 2
            else:
                b = 2
                if q and shape in (3, 4):
                    b = 1
                if not q:
                    b = 3 if shape in (0, 2, 5) else 2
            if q and shape == 6:
                b = 1
            cfg = {"shape": shape, "tbuf": tbuf}
            if shape == 7:
                # the other thread's remaining operations (log, remove_logger) never take the logger manager's lock, so the
                # backend may be preempted inside a sink destructor while it walks the loggers under that lock
                cfg["dtor_yield"] = 1
            js.append({"scenario": "c17.ub", "cfg": cfg, "bound": b, "deadline": 100 if q else 900})
    return js


def sys_jobs(hs, tier):
    q = tier == "quick"
    sj = [wmmlib.sys_job(hs, "sys", 0, 2, "l1,R0"), wmmlib.sys_job(hs, "sys", 0, 2, "l1,l2,R0"), wmmlib.sys_job(hs, "sys", 0, 1, "l1,B0,c0,l2"),
          wmmlib.sys_job(hs, "sys", 0, 2, "l1,B0,c0,l2,B1"), wmmlib.sys_job(hs, "sys", 0, 2, "R0", "l1,R0"), wmmlib.sys_job(hs, "sys", 0, 3, "R0", "R0"), wmmlib.sys_job(hs, "sys", 0, 2, "l1,B0,x0"),
          # two threads create / get the same logger name at once: one logger, the same for both, the unused sink destroyed
          wmmlib.sys_job(hs, "sys", 0, 0, "C0", "C0"), wmmlib.sys_job(hs, "sys", 1, 1, "C0,L1", "C0")]
    if not q:
        sj += [wmmlib.sys_job(hs, "sys", 1, 1, "l1,B0", "l1", deadline=1500), wmmlib.sys_job(hs, "sys", 1, 2, "l1,R0", "l1,R0", deadline=1500),
               wmmlib.sys_job(hs, "sys", 0, 3, "l1,B0,c0,l2,B1,c0,l3", deadline=1500), wmmlib.sys_job(hs, "sys", 1, 1, "B0", "l1,B0", deadline=1500)]
    return sj


def run(ctx):
    ctx.rule = ("all schedules up to the preemption bound of two threads x up to 7 operations from {log A, log B, remove_logger(A), "
                "remove_logger_blocking(A), create_or_get_logger(A, other sinks), remove_logger(B), get_logger, get_sink / "
                "create_or_get_sink / create_or_get_logger again} with loggers A{S1,S2}, B{S1} and up to two remove/re-create "
                "cycles, against the preemptible backend, under AddressSanitizer; recording sinks signal their destruction; "
                "distinct = distinct observable outcomes")
    ctx.set_deadline(170 if ctx.tier == "quick" else 1800)
    # (b) the name registries, sequentially: explicit-state BFS over create / look-up / drop / remove / log histories through
    # the public API against a reference model of who holds which sink
    ctx.rule += ("; registry BFS: histories over {create_or_get_sink(s), drop the user's reference, create_or_get_logger(L, sink set), "
                 "remove_logger + poll to completion, log, create_or_get_logger(name, source logger) (copy of the other logger's options: same sink objects)} for 2 sink names x 2 logger names x 3 sink sets up to the depth bound, state = "
                 "registry entries in order (name, expired / object rank) + loggers + user references; after every step the live sink "
                 "objects, get_sink, get_logger and the sinks a statement reaches must equal the reference")
    reg = vf.build("c17_registry", SRC_REG, ["-O1"])
    rr = vf.run(reg, ["--depth", 10 if ctx.tier == "quick" else 18], timeout=600)
    ctx.absorb(rr, "c17_registry")
    # (c) below Engine B's granularity: real log calls, remove_logger / remove_logger_blocking (also from a deeper frame) and
    # re-creation under the same name against real backend polls (clean-up of invalidated loggers included), at every atomic
    # operation of either side
    hs = wmmlib.build_sys()
    sj = sys_jobs(hs, ctx.tier)
    wmmlib.run_sys(ctx, sj)
    ctx.rule += ("; whole-system exploration at atomic-operation granularity (Engine A): log / remove_logger / remove_logger_blocking / re-create "
                 "of one or two threads against real backend polls: statements at the sink of the logger generation they were logged through, each sink "
                 "destroyed exactly once after its logger's removal and after its last statement, blocking removal complete at return")
    # forking an AddressSanitizer process is ~10x slower: the sanitizer build covers the lower preemption bound, the plain
    # build (quill's asserts live, destruction marks checked) the higher one
    exe_asan = opxlib.build("sc_c17_asan", SRC, opxlib.ASAN)
    opxlib.run_jobs(ctx, exe_asan, jobs(ctx.tier, True), "sc_c17(asan)", env=ENV)
    exe = opxlib.build("sc_c17", SRC)
    opxlib.run_jobs(ctx, exe, jobs(ctx.tier, False), "sc_c17")
    ctx.assumptions.append("a logger is used only by the thread that removes it (removing a logger other threads still log through is documented misuse)")
    ctx.assumptions.append("a same-name logger is re-created only after remove_logger_blocking returned (as documented)")


def replay(rep, extra):
    if wmmlib.is_sys_record(rep["record"]):
        return wmmlib.replay_sys("C17", rep)
    if "history" in rep["record"]:
        reg = vf.build("c17_registry", SRC_REG, ["-O1"])
        rr = vf.run(reg, ["--replay", rep["record"]["case"]], timeout=120)
        bad = [r for r in rr.records if r.get("t") == "viol"]
        for r in bad:
            print("VIOLATION property=C17 replay=(given) detail=%s" % r)
        return 1 if bad else 0
    return opxlib.replay("C17", opxlib.build("sc_c17_asan", SRC, opxlib.ASAN), rep)
