"""C01 Bounded SPSC queue delivers each committed record exactly once, in order, intact."""
from lib import vf, wmmlib

LEVEL = "model_checking"


def prebuild():
    wmmlib.build()


def run(ctx):
    ctx.rule = ("stateful DFS (to closure, no bound) over every interleaving of producer and consumer steps and every value an "
                "atomic load may legally return under a view-based release/acquire/relaxed semantics, on the real "
                "BoundedSPSCQueueImpl<T> compiled against a shim std::atomic; per configuration (integer type x capacity, also requested capacities that are not powers of two, x reader "
                "publish percent x position preset just below integer wrap-around x record-size sequence); happens-before race "
                "detection on every payload byte; states = canonical (per-thread history) state/choice pairs")
    exe = wmmlib.build()
    if ctx.tier == "quick":
        jobs = wmmlib.bounded_jobs(exe, ["u8"], [8, 16], [0, 5, 50, 100], [0, 1], 3)
        jobs += wmmlib.bounded_jobs(exe, ["u16", "u64"], [8], [5, 50], [0, 1], 3)
        jobs += wmmlib.bounded_jobs(exe, ["u8"], [8], [5], [1], 4)
        # requested capacities that are not powers of two (rounded up by the constructor: mask, batch size and storage must
        # all follow the rounded value)
        jobs += wmmlib.bounded_jobs(exe, ["u8"], [(5, 8), (7, 8), (12, 16)], [5, 50], [0, 1], 3)
        jobs += wmmlib.bounded_jobs(exe, ["u64"], [(6, 8)], [5], [0, 1], 3)
    else:
        jobs = wmmlib.bounded_jobs(exe, ["u8", "u16", "u64"], [8, 16, 32], [0, 5, 25, 50, 100], [0, 1], 4, deadline=900, budget=2400)
        jobs += wmmlib.bounded_jobs(exe, ["u8"], [8, 64], [5, 50], [0, 1], 5, per_proc=400, deadline=900, budget=2400)
        jobs += wmmlib.bounded_jobs(exe, ["u8", "u64"], [(5, 8), (7, 8), (12, 16), (24, 32)], [5, 50], [0, 1], 4, deadline=900, budget=2400)
    for rr in vf.run_many(jobs):
        ctx.absorb(rr, "h_queues(bounded)")
    wmmlib.tsan_guard(ctx, "bounded")
    ctx.distinct.update(range(int(ctx.stats.get("complete_executions", 0))))
    ctx.assumptions.append("view-based RC11-style semantics without promises: complete for this code because no relaxed load of a location written by another thread feeds a store (no load-buffering shapes); seq_cst treated as acq/rel (only used in constructors/destructor, never concurrently)")
    ctx.assumptions.append("a drained queue on which a fitting record is refused is decided under C09 (kind stall-on-empty-queue), not here")
    # C01 is a safety statement: liveness verdicts are C09's
    keep = []
    for v in ctx.violations:
        if v.get("kind") in ("stall-on-empty-queue", "deadlock"):
            ctx.add("stalls_observed")
        else:
            keep.append(v)
    ctx.violations = keep


def replay(rep, extra):
    exe = wmmlib.build()
    rec = rep["record"]
    args = []
    for kv in rec["config"].split():
        k, v = kv.split("=", 1)
        args += ["--" + k, v]
    rr = vf.run(exe, args + ["--replay", rec["case"]], timeout=120)
    v = [r for r in rr.records if r.get("t") == "viol"]
    for x in v:
        print("VIOLATION property=%s replay=(given) detail=%s" % (rep["property"], x))
    return 1 if v else 0
