"""C15 Time rotation separates statements at the configured daily/hourly/minute points."""
import calendar
import time

from lib import vf
from props import c14

LEVEL = "model_checking"


def prebuild():
    vf.build("rot", c14.SRC, c14.FLAGS)


BASE_DAY = 1718409600  # 2024-06-15 00:00:00 UTC


def starts_for(freq, daily):
    if freq == "min":
        g = BASE_DAY + 11 * 3600 + 45 * 60
        return [g - 2, g, g + 1, g - 30]
    if freq == "hour":
        g = BASE_DAY + 12 * 3600
        return [g - 1, g, g + 1, g - 1800]
    hh, mm = int(daily[:2]), int(daily[3:])
    g = BASE_DAY + hh * 3600 + mm * 60
    return [g - 1, g, g + 1, g + 9 * 3600 + 7]


def configs(tier):
    out = []
    freqs = [("min", 1, "00:00"), ("min", 2, "00:00"), ("hour", 1, "00:00"), ("hour", 3, "00:00"),
             ("daily", 1, "00:00"), ("daily", 1, "02:30"), ("daily", 1, "23:59")]
    for freq, interval, daily in freqs:
        for start in starts_for(freq, daily):
            for scheme in ("index", "date", "datetime"):
                for limit, backups in ((0, -1), (512, -1), (0, 2), (512, 1)):
                    if tier == "quick" and scheme != "datetime" and (limit, backups) in ((512, -1), (0, 2)):
                        continue
                    out.append({"scheme": scheme, "limit": limit, "backups": backups, "overwrite": 1, "mode": "a",
                                "remove-old": 1, "freq": freq, "interval": interval, "daily": daily, "tz": "gmt",
                                "start": start, "plant": 0})
    # file-name shapes (no extension, dotted stem, start date appended by the sink) and a second rotating sink in the same
    # directory, under time rotation with size pressure and a backup limit
    for freq, interval, daily in (("hour", 1, "00:00"), ("daily", 1, "02:30")):
        start = starts_for(freq, daily)[0]
        for scheme in ("index", "date", "datetime"):
            for extra in ({"name": "app"}, {"name": "app.v1.log"}, {"name": "app+date.log"}, {"aux": 1}):
                if tier == "quick" and freq == "daily" and extra.get("name") in ("app.v1.log", "app+date.log"):
                    continue
                c = {"scheme": scheme, "limit": 512, "backups": 1, "overwrite": 1, "mode": "a", "remove-old": 1, "freq": freq,
                     "interval": interval, "daily": daily, "tz": "gmt", "start": start, "plant": 0}
                c.update(extra)
                out.append(c)
    # local time zones (daily rotation across DST changes, non-hour offsets)
    # start instants: 07:00 UTC of the day before a DST transition, and one hour before the transition itself
    zones = [("America/New_York", [1709967600, 1710050400]), ("Australia/Lord_Howe", [1712300400, 1712415600]),
             ("Asia/Kathmandu", [BASE_DAY + 40000])]
    if tier == "thorough":
        zones += [("Europe/London", [1729926000, 1729987200]), ("America/St_Johns", [1709967600]), ("America/New_York", [1730530800, 1730610000])]
    for zone, starts in zones:
        for start in starts:
            for freq, interval, daily in (("daily", 1, "02:30"), ("daily", 1, "00:00"), ("hour", 1, "00:00"), ("min", 2, "00:00")):
                out.append({"scheme": "datetime", "limit": 0, "backups": -1, "overwrite": 1, "mode": "a", "remove-old": 1,
                            "freq": freq, "interval": interval, "daily": daily, "tz": "local", "zone": zone,
                            "start": start, "plant": 0})
    return out


def run(ctx):
    ctx.rule = ("all non-decreasing timestamp sequences (gaps 0, 1s, period-1, period, period+1, 3 periods+7s, 26h) with "
                "optional size pressure and append restarts, up to the depth bound, per configuration (frequency x interval "
                "x daily time x start instant relative to the grid x naming scheme x size limit x backups x zone; plus file-name shapes and a second rotating sink in the directory); after "
                "every step the directory must equal the reference that rotates exactly at the configured grid points; "
                "distinct = canonical states")
    exe = vf.build("rot", c14.SRC, c14.FLAGS)
    ctx.set_deadline(240 if ctx.tier == "quick" else 1800)
    cfgs = configs(ctx.tier)
    for c in cfgs:
        c["depth"] = 4 if ctx.tier == "quick" else 5
    c14.run_rot(ctx, exe, cfgs, "c15", "rot(c15)")
    ctx.distinct.update(range(int(ctx.stats.get("states", 0))))
    ctx.assumptions.append("configured grid: daily = every HH:MM:00 of the sink's zone (libc mktime/timegm); hourly/minutely x N = first top of the hour/minute strictly after the sink's start, then every N units")
    ctx.assumptions.append("a due rotation point with an empty file (or with rotation stopped by the backup limit) is consumed without rotating")


replay = c14.replay
