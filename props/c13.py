"""C13 Rendered time equals strftime of the instant plus exact fractional digits."""
from lib import vf

LEVEL = "model_checking"
FLAGS = ["-O2", "-g"]
SRC = ["engines/seqx/c13_time.cpp"]

ZONES_QUICK = [("UTC", "gmt"), ("America/New_York", "gmt"), ("UTC", "local"), ("America/New_York", "local"),
               ("Australia/Lord_Howe", "local"), ("Asia/Kathmandu", "local")]
ZONES_THOROUGH = ZONES_QUICK + [("Europe/London", "local"), ("Pacific/Chatham", "local"),
                                ("America/St_Johns", "local"), ("Europe/London", "gmt")]


def prebuild():
    vf.build("c13_time", SRC, FLAGS)


def run(ctx):
    ctx.rule = ("for every pattern (token sequences over the accepted strftime conversions + literals, with 0/1 "
                "fractional specifier at every position) and zone: BFS to fixpoint over sequences of instants from a "
                "boundary alphabet, state = cache fields of both StringFromTime parts; each rendering compared with "
                "libc strftime; distinct = (pattern, zone, cache state)")
    exe = vf.build("c13_time", SRC, FLAGS)
    jobs = []
    if ctx.tier == "quick":
        zones, ntok, emod, nsh, frac = ZONES_QUICK, 2, 0, 4, 1
        ctx.set_deadline(240)
    else:
        zones, ntok, emod, nsh, frac = ZONES_THOROUGH, 2, 1, 8, 2
        ctx.set_deadline(1800)
    for z, m in zones:
        for s in range(nsh):
            jobs.append((exe, ["--zone", z, "--mode", m, "--ntok", ntok, "--emod", emod, "--frac", frac,
                               "--shard", s, "--nshards", nsh], ctx.time_left()))
    if ctx.tier == "thorough":
        # three-token patterns without E/O forms, no fraction variants (fraction handling is position-independent
        # and covered above), on two representative zones
        for z, m in [("UTC", "gmt"), ("America/New_York", "local"), ("Australia/Lord_Howe", "local")]:
            for s in range(16):
                jobs.append((exe, ["--zone", z, "--mode", m, "--ntok", 3, "--emod", 0, "--frac", 0,
                                   "--shard", s, "--nshards", 16], ctx.time_left()))
    for rr in vf.run_many(jobs):
        ctx.absorb(rr, "c13_time")
    ctx.distinct.update(range(ctx.stats.get("states", 0)))
    ctx.assumptions.append("libc gmtime_r/localtime_r/strftime (C locale) are the oracle")
    ctx.assumptions.append("instants are drawn from a boundary alphabet (second/minute/quarter-hour/hour/noon/midnight, both DST transitions of 2024, 2001, 2100); all sequences over it are covered because the BFS closes")


def replay(rep, extra):
    exe = vf.build("c13_time", SRC, FLAGS)
    rec = rep["record"]
    if rec.get("kind") != "mismatch":
        print("replay supports mismatch records only")
        return 2
    outs = []
    for _ in range(2):
        rr = vf.run(exe, ["--zone", rec["zone"], "--mode", rec["mode"], "--pattern", rec["pattern"], "--seq", rec["seq"]], timeout=60)
        outs.append([r for r in rr.records if r.get("t") == "viol"])
    if outs[0] != outs[1]:
        print("NONDETERMINISM in replay")
        return 2
    for v in outs[0]:
        print("VIOLATION property=C13 replay=(given) detail=%s" % v)
    return 1 if outs[0] else 0
