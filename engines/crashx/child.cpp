// Engine D child: a small program of log statements on the real Backend::start thread with one fault at an enumerated
// statement boundary k, while the backend is provably stuck after exactly j sink writes (gated sink) or asleep.
// The parent inspects the wait status and the log file from outside.
//
// argv: --log PATH --fault stop|exit|return|segv|abrt|fpe|ill|int|term --n N --k K --j J(-1 = backend asleep) [--nowait 1]
//       --clock system|tsc --cycles 1|2 --second none|finished|alive --handler 0|1
//       --tpos P   the second thread logs T1,T2 after the main thread's statement number P (0 = before all of them, so the
//                  second thread registers first; >= 1: the main thread registers first)
//       --lim N    (0 = defaults) soft limit = hard limit = initial capacity of the backend's per-thread buffers
//       --fpos P   (-1 = none) a flusher thread calls flush_log() after the main thread's statement number P (before the
//                  second thread if P == tpos) and stays blocked in it for as long as the backend is held
#include "quill/Backend.h"
#include "quill/Frontend.h"
#include "quill/LogMacros.h"
#include "quill/Logger.h"
#include "quill/sinks/FileSink.h"

#include <atomic>
#include <csignal>
#include <cstdio>
#include <cstdlib>
#include <cstring>
#include <linux/futex.h>
#include <string>
#include <sys/syscall.h>
#include <thread>
#include <unistd.h>

using namespace quill;

static std::atomic<int> g_granted{0};   // number of writes the backend may perform
static std::atomic<int> g_written{0};   // writes performed
static std::atomic<int> g_waiting{0};   // 1 while the backend is blocked in the gate

static void fwait(std::atomic<int>* a, int v) { syscall(SYS_futex, reinterpret_cast<int*>(a), FUTEX_WAIT_PRIVATE, v, nullptr, nullptr, 0); }
static void fwake(std::atomic<int>* a) { syscall(SYS_futex, reinterpret_cast<int*>(a), FUTEX_WAKE_PRIVATE, 64, nullptr, nullptr, 0); }

class GatedFileSink : public FileSink
{
public:
  using FileSink::FileSink;
  void write_log(MacroMetadata const* md, uint64_t ts, std::string_view tid, std::string_view tname, std::string const& pid,
                 std::string_view logger, LogLevel level, std::string_view ld, std::string_view lc,
                 std::vector<std::pair<std::string, std::string>> const* na, std::string_view msg, std::string_view st) override
  {
    while (g_written.load() >= g_granted.load())
    {
      int const g = g_granted.load();
      g_waiting.store(1);
      fwake(&g_waiting);
      if (g_written.load() >= g) fwait(&g_granted, g);
    }
    g_waiting.store(0);
    FileSink::write_log(md, ts, tid, tname, pid, logger, level, ld, lc, na, msg, st);
    g_written.fetch_add(1);
    fwake(&g_written);
  }
};

// state letter of a task of this process from /proc (R running, S sleeping, ...)
static char task_state(long tid)
{
  char path[64], buf[512];
  snprintf(path, sizeof path, "/proc/self/task/%ld/stat", tid);
  FILE* f = fopen(path, "r");
  if (!f) return '?';
  size_t n = fread(buf, 1, sizeof buf - 1, f);
  fclose(f);
  buf[n] = 0;
  char const* p = strrchr(buf, ')');
  return (p && p[1] == ' ') ? p[2] : '?';
}

static char const* arg(int argc, char** argv, char const* k, char const* d)
{
  for (int i = 1; i + 1 < argc; ++i)
    if (!strcmp(argv[i], k)) return argv[i + 1];
  return d;
}

int main(int argc, char** argv)
{
  std::string const path = arg(argc, argv, "--log", "/dev/shm/crashx.log");
  std::string const fault = arg(argc, argv, "--fault", "stop");
  int const n = atoi(arg(argc, argv, "--n", "2"));
  int const k = atoi(arg(argc, argv, "--k", "2"));
  int const j = atoi(arg(argc, argv, "--j", "0"));
  std::string const clock = arg(argc, argv, "--clock", "system");
  int const cycles = atoi(arg(argc, argv, "--cycles", "1"));
  std::string const second = arg(argc, argv, "--second", "none");
  bool const handler = atoi(arg(argc, argv, "--handler", "1")) != 0;
  bool const asleep = j < 0;
  (void)n;
  alarm(60); // safety net of the harness itself (a hang is reported by the parent as such)

  BackendOptions bo;
  bo.error_notifier = [](std::string const& s) { fprintf(stderr, "notifier: %s\n", s.c_str()); };
  if (asleep) bo.sleep_duration = std::chrono::hours{1};
  // the guarantee for a handled signal does not depend on the shutdown drain: with the drain switched off the handler's own
  // flush is the only thing that brings the thread's statements out
  if (atoi(arg(argc, argv, "--nowait", "0"))) bo.wait_for_queues_to_empty_before_exit = false;
  if (int const lim = atoi(arg(argc, argv, "--lim", "0")))
  {
    // tiny backend buffering limits: a read pass caches at most `lim` statements per queue, the drain has to go back to the
    // queues between writes to keep the global order
    bo.transit_events_soft_limit = static_cast<size_t>(lim);
    bo.transit_events_hard_limit = static_cast<size_t>(lim);
    bo.transit_event_buffer_initial_capacity = static_cast<size_t>(lim);
  }
  if (clock == "tsc") bo.rdtsc_resync_interval = std::chrono::hours{2};
  if (handler)
    Backend::start<FrontendOptions>(bo, SignalHandlerOptions{});
  else
    Backend::start(bo);

  FileSinkConfig fc;
  fc.set_open_mode('w');
  auto sink = Frontend::create_or_get_sink<GatedFileSink>(path, fc, FileEventNotifier{});
  ClockSourceType const cs = clock == "tsc" ? ClockSourceType::Tsc : ClockSourceType::System;
  Logger* lg = Frontend::create_or_get_logger("root", sink, PatternFormatterOptions{"%(message)"}, cs);
  sink.reset();

  int const tpos = atoi(arg(argc, argv, "--tpos", "0"));
  int const fpos = atoi(arg(argc, argv, "--fpos", "-1"));
  int pre = 0; // statements of the second thread
  std::thread second_thread, flusher_thread;
  // everything the helper threads touch after the main thread may have left main() is static or captured by value
  static std::atomic<int> park{0};
  static std::atomic<int> flusher_tid{0}, flusher_done{0};
  bool const second_alive = second == "alive";
  auto run_flusher = [&]
  {
    flusher_thread = std::thread(
      [lg]
      {
        flusher_tid.store(static_cast<int>(syscall(SYS_gettid)));
        lg->flush_log();
        flusher_done.store(1);
      });
    // go on once the flush request is enqueued: the flusher returned, or sleeps inside flush_log's wait loop (the request is
    // pushed before the first sleep; nothing before it sleeps)
    int seen = 0;
    while (!flusher_done.load() && seen < 3)
    {
      std::this_thread::sleep_for(std::chrono::microseconds{300});
      int const tid = flusher_tid.load();
      seen = (tid && task_state(tid) == 'S') ? seen + 1 : 0;
    }
  };
  auto run_second = [&]
  {
    static std::atomic<int> logged{0};
    second_thread = std::thread(
      [lg, second_alive]
      {
        LOG_INFO(lg, "T1");
        LOG_INFO(lg, "T2");
        logged.store(1);
        fwake(&logged);
        if (second_alive)
          while (true) fwait(&park, 0); // alive and parked until the process ends
      });
    while (logged.load() == 0) fwait(&logged, 0);
    if (second == "finished") second_thread.join();
    pre = 2;
  };

  // the main thread's statements up to the fault point, the other threads at their positions
  for (int i = 0; i <= k; ++i)
  {
    if (i >= 1) LOG_INFO(lg, "M{}", i);
    if (fpos == i) run_flusher();
    if (second != "none" && tpos == i) run_second();
  }

  if (!asleep)
  {
    // let the backend write exactly j statements, then wait until it is provably stuck at the next one (if any)
    int const grant = j; // counted over the whole sequence (second thread's statements included)
    g_granted.store(grant);
    fwake(&g_granted);
    for (int v; (v = g_written.load()) < grant;) fwait(&g_written, v); // one load: no lost wake-up
    if (pre + k > grant)
      while (g_waiting.load() == 0 || g_written.load() != grant) fwait(&g_waiting, 0);
    else
      std::this_thread::sleep_for(std::chrono::milliseconds{3}); // everything written: the backend goes idle
  }
  // open the gate and trigger the fault in the same breath
  g_granted.store(1 << 30);
  fwake(&g_granted);

  if (fault == "stop")
  {
    Backend::stop();
    if (cycles == 2)
    {
      // statements logged while the backend is stopped are delivered by the next start/stop cycle
      LOG_INFO(lg, "R1");
      if (handler)
        Backend::start<FrontendOptions>(bo, SignalHandlerOptions{});
      else
        Backend::start(bo);
      LOG_INFO(lg, "R2");
      Backend::stop();
    }
    if (flusher_thread.joinable()) flusher_thread.join(); // the drain processed the flush request
    fprintf(stdout, "stopped\n");
    fflush(stdout);
    if (second == "alive") _exit(0); // a parked thread cannot be joined; the statements are already on disk
    return 0;
  }
  if (fault == "exit") std::exit(0);
  if (flusher_thread.joinable()) flusher_thread.detach();
  if (fault == "return")
  {
    if (second == "alive") second_thread.detach();
    return 0;
  }
  int sig = 0;
  if (fault == "segv") sig = SIGSEGV;
  if (fault == "abrt") sig = SIGABRT;
  if (fault == "fpe") sig = SIGFPE;
  if (fault == "ill") sig = SIGILL;
  if (fault == "int") sig = SIGINT;
  if (fault == "term") sig = SIGTERM;
  std::raise(sig);
  // not reached for fatal signals; SIGINT/SIGTERM exit inside the handler
  _exit(99);
}
