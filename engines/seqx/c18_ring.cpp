// C18 (ring level): explicit-state BFS to fixpoint over store / process / set_capacity histories on the
// real quill::detail::BacktraceStorage, against a reference deque.
//
// State = operation history replayed on a fresh object (the class is move-only and holds move-only
// events); canonical key = (capacity, _index, rank pattern of stored ids in vector order, rank pattern
// of the reference content).  Ids enter the code only through moves, never comparisons, so two
// states with equal rank patterns have the same futures up to renaming - the abstraction is exact.
#include "quill/backend/BacktraceStorage.h"
#include "quill/backend/TransitEvent.h"
#include "quill/core/MacroMetadata.h"

#include "vf_out.h"

#include <algorithm>
#include <csetjmp>
#include <csignal>
#include <deque>
#include <map>
#include <set>
#include <string>
#include <unordered_set>
#include <vector>

using namespace quill;
using namespace quill::detail;

static sigjmp_buf g_jmp;
static volatile sig_atomic_t g_armed = 0;
static void on_crash(int sig)
{
  if (g_armed)
  {
    g_armed = 0;
    siglongjmp(g_jmp, sig);
  }
  _exit(70);
}

struct Op
{
  char kind; // 'S' store, 'P' process, 'C' set_capacity
  int arg;
};

static std::string op_str(std::vector<Op> const& h)
{
  std::string s;
  for (auto const& o : h)
  {
    if (!s.empty()) s += ' ';
    s += o.kind;
    if (o.kind == 'C') s += std::to_string(o.arg);
  }
  return s;
}

struct World
{
  BacktraceStorage* bs; // leaked on crash paths on purpose
  std::deque<int> ref;
  int ref_cap{0};
  int next_id{1};
};

static constexpr MacroMetadata g_md{"f.cpp:1", "fn", "{}", nullptr, LogLevel::Backtrace, MacroMetadata::Event::Log};

struct StepResult
{
  bool crashed{false};
  int sig{0};
  bool mismatch{false};
  std::vector<int> got, want;
};

static StepResult apply(World& w, Op const& op)
{
  StepResult r;
  g_armed = 1;
  int sig = sigsetjmp(g_jmp, 1);
  if (sig != 0)
  {
    r.crashed = true;
    r.sig = sig;
    return r;
  }
  if (op.kind == 'S')
  {
    TransitEvent te;
    te.macro_metadata = &g_md;
    te.timestamp = static_cast<uint64_t>(w.next_id);
    std::string m = std::to_string(w.next_id);
    te.formatted_msg->append(m.data(), m.data() + m.size());
    w.bs->store(std::move(te), "1", "t");
    if (w.ref_cap > 0)
    {
      w.ref.push_back(w.next_id);
      while (static_cast<int>(w.ref.size()) > w.ref_cap) w.ref.pop_front();
    }
    ++w.next_id;
  }
  else if (op.kind == 'P')
  {
    std::vector<int> got;
    w.bs->process(
      [&got](TransitEvent const& te, std::string_view, std::string_view)
      { got.push_back(atoi(std::string{te.formatted_msg->data(), te.formatted_msg->size()}.c_str())); });
    std::vector<int> want(w.ref.begin(), w.ref.end());
    w.ref.clear();
    r.got = got;
    r.want = want;
    if (got != want) r.mismatch = true;
  }
  else
  {
    w.bs->set_capacity(static_cast<uint32_t>(op.arg));
    if (op.arg != w.ref_cap)
    {
      // re-initialisation with a different capacity forgets what was stored (documented by the code:
      // set_capacity clears); same capacity keeps the content.
      w.ref_cap = op.arg;
      w.ref.clear();
    }
  }
  g_armed = 0;
  return r;
}

static std::string canon(World const& w)
{
  // rank pattern over the union of stored ids and reference ids
  std::vector<int> ids;
  for (auto const& e : w.bs->_stored_events) ids.push_back(static_cast<int>(e.transit_event.timestamp));
  for (int x : w.ref) ids.push_back(x);
  std::vector<int> sorted = ids;
  std::sort(sorted.begin(), sorted.end());
  sorted.erase(std::unique(sorted.begin(), sorted.end()), sorted.end());
  std::string k = "c" + std::to_string(w.bs->_capacity) + "i" + std::to_string(w.bs->_index) + "s";
  size_t n = w.bs->_stored_events.size();
  for (size_t i = 0; i < ids.size(); ++i)
  {
    if (i == n) k += "|r";
    k += std::to_string(std::lower_bound(sorted.begin(), sorted.end(), ids[i]) - sorted.begin());
    k += ',';
  }
  if (ids.size() == n) k += "|r";
  k += "|rc" + std::to_string(w.ref_cap);
  return k;
}

int main(int argc, char** argv)
{
  vf::Args a{argc, argv};
  int const max_cap = static_cast<int>(a.geti("--max-cap", 4));
  int const max_depth = static_cast<int>(a.geti("--max-depth", 64));
  char const* replay = a.get("--replay");

  struct sigaction sa;
  memset(&sa, 0, sizeof sa);
  sa.sa_handler = on_crash;
  sa.sa_flags = SA_NODEFER;
  sigaction(SIGABRT, &sa, nullptr);
  sigaction(SIGSEGV, &sa, nullptr);
  sigaction(SIGBUS, &sa, nullptr);
  sigaction(SIGFPE, &sa, nullptr);

  std::vector<Op> alphabet;
  alphabet.push_back({'S', 0});
  alphabet.push_back({'P', 0});
  for (int c = 0; c <= max_cap; ++c) alphabet.push_back({'C', c});

  auto run_history = [&](std::vector<Op> const& h, bool report, StepResult* last) -> World*
  {
    World* w = new World;
    w->bs = new BacktraceStorage;
    for (size_t i = 0; i < h.size(); ++i)
    {
      StepResult r = apply(*w, h[i]);
      if (last && i + 1 == h.size()) *last = r;
      if (r.crashed || r.mismatch)
      {
        if (report)
        {
          std::vector<Op> pre(h.begin(), h.begin() + static_cast<long>(i) + 1);
          vf::J j("viol");
          j.s("kind", r.crashed ? "crash" : "wrong-replay").s("case", op_str(pre)).i("capacity", w->ref_cap);
          if (r.crashed) j.i("signal", r.sig);
          if (r.mismatch) j.iv("got", r.got).iv("want", r.want);
          j.b("ring", true).emit();
        }
        return r.crashed ? nullptr : w; // a crashed object is not touched again (leaked)
      }
    }
    return w;
  };

  if (replay)
  {
    // replay a history given as "S S C3 P ..." twice; same verdict both times is asserted by the driver
    std::vector<Op> h;
    std::string s = replay;
    size_t p = 0;
    while (p < s.size())
    {
      while (p < s.size() && s[p] == ' ') ++p;
      if (p >= s.size()) break;
      Op o{s[p], 0};
      ++p;
      if (o.kind == 'C')
      {
        o.arg = atoi(s.c_str() + p);
        while (p < s.size() && s[p] != ' ') ++p;
      }
      h.push_back(o);
    }
    run_history(h, true, nullptr);
    vf::done();
    return 0;
  }

  std::unordered_set<std::string> seen;
  std::vector<std::vector<Op>> frontier{{}};
  {
    World* w = run_history({}, false, nullptr);
    seen.insert(canon(*w));
  }
  unsigned long long transitions = 0, states = 1, flushes_nonempty = 0, wrapped_flushes = 0, executions = 0;
  std::set<std::string> viol_keys;
  int depth = 0;
  size_t samples = 0;
  while (!frontier.empty() && depth < max_depth)
  {
    std::vector<std::vector<Op>> next;
    for (auto const& h : frontier)
    {
      for (auto const& op : alphabet)
      {
        std::vector<Op> h2 = h;
        h2.push_back(op);
        // replay determinism / prefix cleanliness: the prefix was already checked when it was reached
        StepResult last;
        World* w = run_history(h2, false, &last);
        ++transitions;
        ++executions;
        if (last.crashed || last.mismatch)
        {
          // report each distinct (kind, canonical predecessor, op) once
          std::string vk = std::string(last.crashed ? "crash" : "mismatch");
          World* pw = run_history(h, false, nullptr);
          vk += canon(*pw) + op.kind + std::to_string(op.arg);
          if (viol_keys.insert(vk).second) run_history(h2, true, nullptr);
          continue; // do not expand beyond a violating step
        }
        if (op.kind == 'P' && !last.want.empty())
        {
          ++flushes_nonempty;
          World* pw = run_history(h, false, nullptr);
          if (pw && pw->bs->_index != 0) ++wrapped_flushes;
        }
        std::string k = canon(*w);
        if (seen.insert(k).second)
        {
          ++states;
          next.push_back(h2);
          if (samples < 6 && h2.size() >= 5)
          {
            vf::J("sample").s("history", op_str(h2)).s("state", k).emit();
            ++samples;
          }
        }
      }
    }
    frontier.swap(next);
    ++depth;
  }
  bool const fix = frontier.empty();
  // canon-on-replay: rebuild a few states twice and compare keys
  vf::J("stat")
    .u("states", states)
    .u("transitions", transitions)
    .u("executions", executions)
    .u("traces_validated_against_impl", executions)
    .u("max_depth_reached", static_cast<unsigned>(depth))
    .u("nonempty_flushes", flushes_nonempty)
    .u("flushes_after_wrap", wrapped_flushes)
    .b("exhaustive", fix)
    .emit();
  if (!fix) vf::J("cap").s("why", "depth bound hit before fixpoint").emit();
  vf::done();
  return 0;
}
