// C17 (registry): explicit-state BFS over create / look-up / drop / remove histories on the real SinkManager and
// LoggerManager through the public Frontend API, against a reference model of "who holds which sink":
//   creating or looking up a sink by name is idempotent (the same object for as long as anybody holds it), a sink is
//   destroyed exactly when its last holder (user reference or logger) goes away, get_sink finds exactly the live sinks,
//   a logger re-created after a completed removal gets the sinks it was given, statements reach exactly the sink objects
//   of their logger.
// State = history replayed from a reset registry (all loggers removed, all references dropped, registry purged; the reset
// is asserted to reach the empty state); key = registry entries (name, expired / object rank) in order + loggers (name,
// validity, sink ranks) + user references.  Single thread: the backend is polled to quiescence inside rm / log.
//
// argv: --depth D
#include "quill/Backend.h"
#include "quill/Frontend.h"
#include "quill/LogMacros.h"
#include "quill/Logger.h"
#include "quill/backend/ManualBackendWorker.h"
#include "quill/sinks/Sink.h"

#include "vf_out.h"

#include <deque>
#include <map>
#include <set>
#include <string>
#include <vector>

using namespace quill;

struct Opt
{
  static constexpr QueueType queue_type = QueueType::UnboundedBlocking;
  static constexpr size_t initial_queue_capacity = 4096;
  static constexpr uint32_t blocking_queue_retry_interval_ns = 800;
  static constexpr size_t unbounded_queue_max_capacity = 1024 * 1024;
  static constexpr HugePagesPolicy huge_pages_policy = HugePagesPolicy::Never;
};
using F = FrontendImpl<Opt>;
using L = LoggerImpl<Opt>;

static int g_serial = 0;
static std::set<int> g_live;
static std::vector<std::pair<int, std::string>> g_recs; // (sink serial, message)

struct RegSink : public Sink
{
  RegSink() : serial(++g_serial) { g_live.insert(serial); }
  ~RegSink() override { g_live.erase(serial); }
  void write_log(MacroMetadata const*, uint64_t, std::string_view, std::string_view, std::string const&, std::string_view, LogLevel,
                 std::string_view, std::string_view, std::vector<std::pair<std::string, std::string>> const*, std::string_view msg,
                 std::string_view) override
  {
    g_recs.emplace_back(serial, std::string(msg));
  }
  void flush_sink() override {}
  int serial;
};

static char const* const SN[2] = {"s1", "s2"};
static char const* const LN[2] = {"A", "B"};
static int const SETS[3] = {1, 2, 3}; // bit masks over the sink names

struct Model
{
  int obj[2] = {0, 0};             // serial of the live object per name (0 = none)
  bool user[2] = {false, false};   // the user holds a reference
  std::map<int, int> loggers;      // logger index -> sink mask
  int holders(int n) const
  {
    int h = user[n] ? 1 : 0;
    for (auto const& kv : loggers)
      if (kv.second & (1 << n)) ++h;
    return h;
  }
};

static ManualBackendWorker* g_w;
static std::shared_ptr<Sink> g_user[2];
static Model g_m;
static int g_max_serial_known = 0;
static long g_counter = 0;
static std::string g_fail_kind, g_fail_detail;

static void fail(std::string const& k, std::string const& d)
{
  if (g_fail_kind.empty())
  {
    g_fail_kind = k;
    g_fail_detail = d;
  }
}

static int serial_of(std::shared_ptr<Sink> const& p) { return static_cast<RegSink*>(p.get())->serial; }

// create_or_get_sink through the public API + identity check against the model
static std::shared_ptr<Sink> cs_checked(int n, char const* what)
{
  std::shared_ptr<Sink> p = F::create_or_get_sink<RegSink>(SN[n]);
  int const s = serial_of(p);
  if (g_m.obj[n])
  {
    if (s != g_m.obj[n])
      fail("sink-lookup-not-idempotent", std::string(what) + ": create_or_get_sink(" + SN[n] + ") returned object #" + std::to_string(s) +
             " while object #" + std::to_string(g_m.obj[n]) + " of that name is still held");
  }
  else
  {
    if (s <= g_max_serial_known)
      fail("sink-lookup-returned-dead-object", std::string(what) + ": create_or_get_sink(" + SN[n] + ") returned old object #" + std::to_string(s));
    g_m.obj[n] = s;
  }
  g_max_serial_known = g_serial;
  return p;
}

static void model_release(int n)
{
  if (g_m.obj[n] && g_m.holders(n) == 0) g_m.obj[n] = 0;
}

static void poll_quiet()
{
  for (int i = 0; i < 6; ++i) g_w->poll_one();
}

static void probes(char const* what)
{
  // live objects == model objects
  std::set<int> want;
  for (int n = 0; n < 2; ++n)
    if (g_m.obj[n]) want.insert(g_m.obj[n]);
  if (want != g_live)
  {
    std::string a, b;
    for (int x : g_live) a += "#" + std::to_string(x) + " ";
    for (int x : want) b += "#" + std::to_string(x) + " ";
    fail(g_live.size() > want.size() ? "sink-not-destroyed-when-unreferenced" : "sink-destroyed-while-referenced",
         std::string(what) + ": live sink objects [" + a + "] expected [" + b + "]");
  }
  // get_sink finds exactly the live sinks
  for (int n = 0; n < 2; ++n)
  {
    int got = 0;
    try
    {
      got = serial_of(F::get_sink(SN[n]));
    }
    catch (QuillError const&)
    {
      got = 0;
    }
    if (got != g_m.obj[n])
      fail("get_sink-wrong", std::string(what) + ": get_sink(" + SN[n] + ") " + (got ? "returned #" + std::to_string(got) : std::string("threw")) + ", expected " +
             (g_m.obj[n] ? "#" + std::to_string(g_m.obj[n]) : std::string("'does not exist'")));
  }
  // get_logger finds exactly the model's loggers
  for (int l = 0; l < 2; ++l)
  {
    bool const have = F::get_logger(LN[l]) != nullptr;
    if (have != (g_m.loggers.count(l) != 0))
      fail("get_logger-wrong", std::string(what) + ": get_logger(" + LN[l] + ") " + (have ? "found a logger" : "found nothing"));
  }
  // the enumerating look-ups agree with the look-up by name: get_all_loggers() lists exactly the model's loggers, each once;
  // get_valid_logger() returns one of them (none when there is none), also with an exclusion pattern
  {
    std::vector<L*> const all = F::get_all_loggers();
    std::multiset<std::string> names;
    for (L* p : all) names.insert(p->get_logger_name());
    std::multiset<std::string> want;
    for (auto const& kv : g_m.loggers) want.insert(LN[kv.first]);
    if (names != want)
      fail("get_all_loggers-wrong", std::string(what) + ": get_all_loggers() lists " + std::to_string(names.size()) + " logger(s), the model has " + std::to_string(want.size()));
    L* any = F::get_valid_logger();
    if ((any != nullptr) != !want.empty() || (any && !want.count(any->get_logger_name())))
      fail("get_valid_logger-wrong", std::string(what) + ": get_valid_logger() " + (any ? "returned " + any->get_logger_name() : std::string("returned nothing")));
    for (int l = 0; l < 2; ++l)
    {
      L* other = static_cast<L*>(detail::LoggerManager::instance().get_valid_logger(LN[l]));
      bool const expect_some = g_m.loggers.count(1 - l) != 0;
      if ((other != nullptr) != expect_some || (other && other->get_logger_name() != LN[1 - l]))
        fail("get_valid_logger-wrong", std::string(what) + ": get_valid_logger(exclude " + LN[l] + ") " + (other ? "returned " + other->get_logger_name() : std::string("returned nothing")));
    }
  }
}

static std::string op_name(int op)
{
  if (op < 2) return std::string("cs(") + SN[op] + ")";
  if (op < 4) return std::string("drop(") + SN[op - 2] + ")";
  if (op < 10)
  {
    int const l = (op - 4) / 3, m = SETS[(op - 4) % 3];
    return std::string("cl(") + LN[l] + "," + (m == 1 ? "s1" : m == 2 ? "s2" : "s1+s2") + ")";
  }
  if (op < 12) return std::string("rm(") + LN[op - 10] + ")";
  if (op < 14) return std::string("log(") + LN[op - 12] + ")";
  return std::string("clone(") + LN[op - 14] + " from " + LN[1 - (op - 14)] + ")";
}
static constexpr int NOPS = 16;

static void apply(int op)
{
  std::string const what = op_name(op);
  if (op < 2)
  {
    g_user[op] = cs_checked(op, what.c_str());
    g_m.user[op] = true;
  }
  else if (op < 4)
  {
    int const n = op - 2;
    g_user[n].reset();
    g_m.user[n] = false;
    model_release(n);
  }
  else if (op < 10)
  {
    int const l = (op - 4) / 3, mask = SETS[(op - 4) % 3];
    std::vector<std::shared_ptr<Sink>> sinks;
    for (int n = 0; n < 2; ++n)
      if (mask & (1 << n)) sinks.push_back(cs_checked(n, what.c_str()));
    L* lg = F::create_or_get_logger(LN[l], sinks, PatternFormatterOptions{"%(message)"}, ClockSourceType::System);
    if (!g_m.loggers.count(l))
      g_m.loggers[l] = mask;
    else
    {
      // idempotent: the existing logger, with the sinks it already has
      int have = 0;
      for (auto const& sp : lg->sinks)
        for (int n = 0; n < 2; ++n)
          if (g_m.obj[n] && serial_of(sp) == g_m.obj[n]) have |= 1 << n;
      if (have != g_m.loggers[l])
        fail("logger-lookup-not-idempotent", what + ": existing logger returned with sink set " + std::to_string(have) + ", it was created with " + std::to_string(g_m.loggers[l]));
    }
    sinks.clear();
    for (int n = 0; n < 2; ++n) model_release(n);
  }
  else if (op < 12)
  {
    int const l = op - 10;
    L* lg = F::get_logger(LN[l]);
    if (lg)
    {
      F::remove_logger(lg);
      int polls = 0;
      while (detail::LoggerManager::instance().get_number_of_loggers() != g_m.loggers.size() - (g_m.loggers.count(l) ? 1 : 0) && polls < 20)
      {
        g_w->poll_one();
        ++polls;
      }
      if (polls >= 20) fail("removal-never-completes", what + ": the logger is still registered after 20 backend polls");
    }
    if (g_m.loggers.count(l))
    {
      g_m.loggers.erase(l);
      for (int n = 0; n < 2; ++n) model_release(n);
    }
  }
  else if (op >= 14)
  {
    // create_or_get_logger(name, source logger): an existing logger of that name is returned as it is; otherwise the new one
    // gets the SAME sink objects as the source (it becomes one more holder of them); without a source it is a plain look-up
    int const l = op - 14, src = 1 - l;
    L* source = F::get_logger(LN[src]);
    if ((source != nullptr) != (g_m.loggers.count(src) != 0)) fail("get_logger-wrong", what + ": look-up of the source logger disagrees with the model");
    bool const expect = g_m.loggers.count(l) != 0 || g_m.loggers.count(src) != 0;
    // (neither the name nor a source exists: the overload has nothing to return - it asserts in debug builds and throws
    // "Failed to cast logger" in release builds with RTTI; treated as a precondition of this overload, not called)
    L* lg = expect ? F::create_or_get_logger(LN[l], source) : nullptr;
    if ((lg != nullptr) != expect)
      fail("clone-wrong", what + ": " + (lg ? "returned a logger" : "returned nothing") + ", expected " + (expect ? "a logger" : "nothing"));
    if (lg)
    {
      if (!g_m.loggers.count(l)) g_m.loggers[l] = g_m.loggers[src];
      int have = 0;
      for (auto const& sp : lg->sinks)
        for (int n = 0; n < 2; ++n)
          if (g_m.obj[n] && serial_of(sp) == g_m.obj[n]) have |= 1 << n;
      if (have != g_m.loggers[l])
        fail("clone-wrong", what + ": logger has sink set " + std::to_string(have) + ", expected " + std::to_string(g_m.loggers[l]));
    }
  }
  else
  {
    int const l = op - 12;
    L* lg = F::get_logger(LN[l]);
    if (lg)
    {
      size_t const before = g_recs.size();
      long const id = ++g_counter;
      LOG_INFO(lg, "{}#{}", LN[l], id);
      poll_quiet();
      std::multiset<int> got, want;
      for (size_t i = before; i < g_recs.size(); ++i)
      {
        got.insert(g_recs[i].first);
        if (g_recs[i].second != std::string(LN[l]) + "#" + std::to_string(id)) fail("wrong-statement-delivered", what + ": sink received '" + g_recs[i].second + "'");
      }
      if (g_m.loggers.count(l))
        for (int n = 0; n < 2; ++n)
          if (g_m.loggers[l] & (1 << n)) want.insert(g_m.obj[n]);
      if (got != want)
      {
        std::string a, b;
        for (int x : got) a += "#" + std::to_string(x) + " ";
        for (int x : want) b += "#" + std::to_string(x) + " ";
        fail("statement-reached-wrong-sinks", what + ": written to sink objects [" + a + "] expected [" + b + "]");
      }
    }
  }
  probes(what.c_str());
}

static void reset()
{
  for (int l = 0; l < 2; ++l)
    if (L* lg = F::get_logger(LN[l])) F::remove_logger(lg);
  for (int i = 0; i < 6 && detail::LoggerManager::instance().get_number_of_loggers() != 0; ++i) g_w->poll_one();
  g_user[0].reset();
  g_user[1].reset();
  detail::SinkManager::instance().cleanup_unused_sinks();
  g_m = Model{};
  g_max_serial_known = g_serial;
  g_recs.clear();
}

static bool reset_reached_empty()
{
  return detail::SinkManager::instance()._sinks.empty() && detail::LoggerManager::instance()._loggers.empty() && g_live.empty();
}

static std::string canon()
{
  std::map<int, int> rank;
  auto rk = [&rank](int serial)
  {
    auto it = rank.find(serial);
    if (it == rank.end()) it = rank.emplace(serial, static_cast<int>(rank.size()) + 1).first;
    return it->second;
  };
  std::string k = "S:";
  for (auto const& e : detail::SinkManager::instance()._sinks)
  {
    auto sp = e.sink_ptr.lock();
    k += e.sink_id + (sp ? "=" + std::to_string(rk(serial_of(sp))) : std::string("=x")) + ",";
  }
  k += " L:";
  for (auto const& lp : detail::LoggerManager::instance()._loggers)
  {
    k += lp->get_logger_name() + (lp->is_valid_logger() ? "" : "!") + "[";
    for (auto const& sp : lp->sinks) k += std::to_string(rk(serial_of(sp))) + ",";
    k += "]";
  }
  k += " U:";
  for (int n = 0; n < 2; ++n) k += g_user[n] ? std::to_string(rk(serial_of(g_user[n]))) + "," : std::string("-,");
  return k;
}

int main(int argc, char** argv)
{
  vf::Args a{argc, argv};
  long const depth = a.geti("--depth", 6);
  std::string const replay = a.get("--replay", "");
  g_w = Backend::acquire_manual_backend_worker();
  BackendOptions bo;
  std::vector<std::string> notes;
  bo.error_notifier = [&notes](std::string const& s) { notes.push_back(s); };
  bo.log_timestamp_ordering_grace_period = std::chrono::microseconds{0};
  g_w->init(bo);

  auto parse = [](std::string const& s)
  {
    std::vector<int> h;
    size_t p = 0;
    while (p < s.size())
    {
      size_t q = s.find(',', p);
      if (q == std::string::npos) q = s.size();
      if (q > p) h.push_back(atoi(s.substr(p, q - p).c_str()));
      p = q + 1;
    }
    return h;
  };
  auto hist_str = [](std::vector<int> const& h)
  {
    std::string s, t;
    for (int op : h)
    {
      s += std::to_string(op) + ",";
      t += op_name(op) + " ";
    }
    return std::make_pair(s, t);
  };

  if (!replay.empty())
  {
    reset();
    for (int op : parse(replay)) apply(op);
    if (!g_fail_kind.empty())
      vf::J("viol").s("kind", g_fail_kind).s("case", replay).s("history", hist_str(parse(replay)).second).s("detail", g_fail_detail).emit();
    vf::J("stat").u("executions", 1).emit();
    vf::done();
    _exit(0);
  }

  std::set<std::string> seen;
  std::deque<std::vector<int>> frontier;
  reset();
  seen.insert(canon());
  frontier.push_back({});
  unsigned long long transitions = 0, replays = 0, viols = 0, max_depth = 0, expanded_at_bound = 0;
  std::set<std::string> reported;
  while (!frontier.empty())
  {
    std::vector<int> h = frontier.front();
    frontier.pop_front();
    if (static_cast<long>(h.size()) >= depth)
    {
      ++expanded_at_bound;
      continue;
    }
    for (int op = 0; op < NOPS; ++op)
    {
      reset();
      if (!reset_reached_empty())
      {
        vf::J("viol").s("kind", "reset-not-empty").s("case", hist_str(h).first).s("detail", "registry not empty after removing every logger and reference: " + canon()).emit();
        vf::done();
        _exit(0);
      }
      g_fail_kind.clear();
      for (int o : h) apply(o);
      ++replays;
      if (!g_fail_kind.empty()) continue; // already reported when this prefix was first reached
      apply(op);
      ++transitions;
      std::vector<int> h2 = h;
      h2.push_back(op);
      if (!g_fail_kind.empty())
      {
        ++viols;
        if (reported.insert(g_fail_kind).second || viols <= 6)
          vf::J("viol").s("kind", g_fail_kind).s("case", hist_str(h2).first).s("history", hist_str(h2).second).s("detail", g_fail_detail).s("state", canon()).emit();
        continue;
      }
      std::string const k = canon();
      if (seen.insert(k).second)
      {
        frontier.push_back(h2);
        if (h2.size() > max_depth) max_depth = h2.size();
      }
    }
  }
  for (auto const& n : notes)
    if (n.find("Quill INFO") == std::string::npos) vf::J("viol").s("kind", "unexpected-backend-error").s("case", "-").s("detail", n).emit();
  vf::J("stat").u("states", seen.size()).u("transitions", transitions).u("executions", replays).u("registry_states", seen.size()).u("registry_max_depth", max_depth)
    .u("registry_states_left_unexpanded_at_depth_bound", expanded_at_bound).emit();
  vf::J("sample").s("registry_state_example", *seen.rbegin()).emit();
  vf::done();
  _exit(0);
}
