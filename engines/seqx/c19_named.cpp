// C19: named arguments.  Modes:
//   templates : every token sequence (<= ntok tokens) x value tuples through the real frontend/backend, message and
//               key/value pairs compared with an independent scanner that follows fmt's replacement-field grammar
//   orders    : explicit-state BFS over "first use" histories of a template set; state = the backend's template
//               cache content (read through -fno-access-control); each history is replayed in a forked child
//   logj      : LOGJ_ macro generated templates over an identifier menu and at the macro limit
//   json      : writes a JSON-sink file plus the expected objects for the driver to parse with a real JSON parser
#include "quill/Backend.h"
#include "quill/Frontend.h"
#include "quill/LogMacros.h"
#include "quill/Logger.h"
#include "quill/UserClockSource.h"
#include "quill/backend/ManualBackendWorker.h"
#include "quill/sinks/JsonSink.h"
#include "quill/sinks/Sink.h"

#include "vf_out.h"

#include <algorithm>
#include <fstream>
#include <map>
#include <set>
#include <string>
#include <sys/wait.h>
#include <unistd.h>
#include <vector>

using namespace quill;

// ---------------------------------------------------------------------------------------------
// reference

static bool is_align(char c) { return c == '<' || c == '>' || c == '^'; }

static std::string apply_str_spec(std::string const& spec, std::string const& val)
{
  size_t p = 0;
  char fill = ' ', align = '<';
  if (spec.size() >= 2 && is_align(spec[1]))
  {
    fill = spec[0];
    align = spec[1];
    p = 2;
  }
  else if (!spec.empty() && is_align(spec[0]))
  {
    align = spec[0];
    p = 1;
  }
  size_t width = 0;
  while (p < spec.size() && isdigit(static_cast<unsigned char>(spec[p]))) width = width * 10 + static_cast<size_t>(spec[p++] - '0');
  long prec = -1;
  if (p < spec.size() && spec[p] == '.')
  {
    ++p;
    prec = 0;
    while (p < spec.size() && isdigit(static_cast<unsigned char>(spec[p]))) prec = prec * 10 + (spec[p++] - '0');
  }
  std::string v = val;
  if (prec >= 0 && static_cast<size_t>(prec) < v.size()) v.resize(static_cast<size_t>(prec));
  if (v.size() >= width) return v;
  size_t pad = width - v.size();
  size_t left = align == '>' ? pad : (align == '^' ? pad / 2 : 0);
  return std::string(left, fill) + v + std::string(pad - left, fill);
}

struct Field
{
  std::string name, spec;
};

struct Parsed
{
  std::vector<std::string> literals; // literals[i] precedes field i; one trailing literal
  std::vector<Field> fields;
  bool adjacent_escape{false}; // a replacement field directly adjacent to an escaped brace
  bool field_then_escaped_close{false}; // a replacement field whose closing brace is directly followed by "}}"
};

static Parsed scan(std::string const& t)
{
  Parsed r;
  std::string lit;
  size_t p = 0;
  bool last_was_escape = false, last_was_field = false;
  while (p < t.size())
  {
    if (t[p] == '{' && p + 1 < t.size() && t[p + 1] == '{')
    {
      lit += '{';
      p += 2;
      if (last_was_field) r.adjacent_escape = true;
      last_was_escape = true;
      last_was_field = false;
    }
    else if (t[p] == '}' && p + 1 < t.size() && t[p + 1] == '}')
    {
      lit += '}';
      p += 2;
      if (last_was_field) r.adjacent_escape = true;
      last_was_escape = true;
      last_was_field = false;
    }
    else if (t[p] == '{')
    {
      size_t close = t.find('}', p);
      std::string inner = t.substr(p + 1, close - p - 1);
      Field f;
      size_t colon = inner.find(':');
      f.name = inner.substr(0, colon);
      if (colon != std::string::npos) f.spec = inner.substr(colon + 1);
      r.literals.push_back(lit);
      lit.clear();
      r.fields.push_back(f);
      p = close + 1;
      if (p + 1 < t.size() && t[p] == '}' && t[p + 1] == '}') r.field_then_escaped_close = true;
      if (last_was_escape) r.adjacent_escape = true;
      last_was_field = true;
      last_was_escape = false;
    }
    else
    {
      lit += t[p++];
      last_was_escape = false;
      last_was_field = false;
    }
  }
  r.literals.push_back(lit);
  return r;
}

static std::string sanitize(std::string const& s)
{
  std::string o;
  for (char c : s)
  {
    if ((c >= ' ' && c <= '~') || c == '\n')
      o += c;
    else
    {
      char b[8];
      snprintf(b, sizeof b, "\\x%02X", static_cast<unsigned char>(c));
      o += b;
    }
  }
  return o;
}

// ---------------------------------------------------------------------------------------------

struct Captured
{
  std::string message;
  std::vector<std::pair<std::string, std::string>> nargs;
  bool has_nargs{false};
};

struct CaptureSink : public Sink
{
  std::vector<Captured> got;
  void write_log(MacroMetadata const*, uint64_t, std::string_view, std::string_view, std::string const&, std::string_view,
                 LogLevel, std::string_view, std::string_view, std::vector<std::pair<std::string, std::string>> const* na,
                 std::string_view msg, std::string_view) override
  {
    Captured c;
    c.message = std::string(msg);
    if (na)
    {
      c.has_nargs = true;
      c.nargs = *na;
    }
    got.push_back(std::move(c));
  }
  void flush_sink() override {}
};

struct FixedClock : public UserClockSource
{
  uint64_t now() const override { return 1718451898123456789ull; }
};

static std::vector<std::string> const VALUES = {"v", "", "s p", "a,b", "k:v", "q\"\\", std::string("m\x01\x02\x03n")};

static unsigned long long g_eval = 0, g_viol = 0;
static std::set<uint64_t> g_distinct;
static std::set<std::string> g_sigs;
static size_t g_samples = 0;
static ManualBackendWorker* g_worker = nullptr;
static std::shared_ptr<CaptureSink> g_sink;
static Logger* g_logger = nullptr;
static FixedClock g_clock;
// MacroMetadata objects must outlive the statements; templates are interned
static std::map<std::string, std::unique_ptr<MacroMetadata>> g_md;
static std::map<std::string, std::unique_ptr<std::string>> g_tstore;

static MacroMetadata const* md_for(std::string const& tmpl)
{
  auto it = g_md.find(tmpl);
  if (it != g_md.end()) return it->second.get();
  auto& s = g_tstore[tmpl];
  s = std::make_unique<std::string>(tmpl);
  auto m = std::make_unique<MacroMetadata>("/d/f.cpp:7", "fn", s->c_str(), nullptr, LogLevel::Info, MacroMetadata::Event::Log);
  auto* p = m.get();
  g_md[tmpl] = std::move(m);
  return p;
}

static void setup(std::vector<std::shared_ptr<Sink>> extra = {})
{
  g_worker = Backend::acquire_manual_backend_worker();
  BackendOptions bo;
  bo.error_notifier = [](std::string const&) {};
  g_worker->init(bo);
  g_sink = std::make_shared<CaptureSink>();
  std::vector<std::shared_ptr<Sink>> sinks{g_sink};
  for (auto& s : extra) sinks.push_back(s);
  g_logger = Frontend::create_or_get_logger("L", sinks, PatternFormatterOptions{"%(message)"}, ClockSourceType::User, &g_clock);
}

static void log_strings(MacroMetadata const* md, std::vector<std::string> const& a)
{
  switch (a.size())
  {
  case 0: g_logger->log_statement<false, false>(LogLevel::None, md); break;
  case 1: g_logger->log_statement<false, false>(LogLevel::None, md, a[0]); break;
  case 2: g_logger->log_statement<false, false>(LogLevel::None, md, a[0], a[1]); break;
  case 3: g_logger->log_statement<false, false>(LogLevel::None, md, a[0], a[1], a[2]); break;
  default: g_logger->log_statement<false, false>(LogLevel::None, md, a[0], a[1], a[2], a[3]); break;
  }
}

struct Expect
{
  std::string message;
  std::vector<std::pair<std::string, std::string>> pairs;
  Parsed parsed;
  bool value_has_separator{false};
  bool identifier_not_letter{false};
};

static Expect expect_for(std::string const& tmpl, std::vector<std::string> const& vals)
{
  Expect e;
  e.parsed = scan(tmpl);
  std::string m;
  for (size_t i = 0; i < e.parsed.fields.size(); ++i)
  {
    m += e.parsed.literals[i];
    std::string r = apply_str_spec(e.parsed.fields[i].spec, vals[i]);
    m += r;
    e.pairs.emplace_back(e.parsed.fields[i].name, sanitize(r));
    if (vals[i].find("\x01\x02\x03") != std::string::npos) e.value_has_separator = true;
    char c0 = e.parsed.fields[i].name.empty() ? 'a' : e.parsed.fields[i].name[0];
    if (!((c0 >= 'a' && c0 <= 'z') || (c0 >= 'A' && c0 <= 'Z'))) e.identifier_not_letter = true;
  }
  m += e.parsed.literals.back();
  e.message = sanitize(m);
  return e;
}

static std::string pairs_str(std::vector<std::pair<std::string, std::string>> const& p)
{
  std::string s;
  for (auto const& kv : p) s += "(" + kv.first + "=" + kv.second + ")";
  return s;
}

static bool check_one(std::string const& tmpl, std::vector<std::string> const& vals, char const* ctx, bool emit = true,
                      std::string const& history = "")
{
  g_sink->got.clear();
  log_strings(md_for(tmpl), vals);
  for (int i = 0; i < 3; ++i) g_worker->poll_one();
  Expect e = expect_for(tmpl, vals);
  ++g_eval;
  if (emit) g_distinct.insert(vf::fnv(e.message, vf::fnv(tmpl)));
  bool ok = g_sink->got.size() == 1 && g_sink->got[0].message == e.message;
  if (ok)
  {
    if (e.pairs.empty())
      ok = !g_sink->got[0].has_nargs || g_sink->got[0].nargs.empty();
    else
      ok = g_sink->got[0].nargs == e.pairs;
  }
  if (!ok)
  {
    ++g_viol;
    bool attributed_sep = false;
    if (e.value_has_separator && !e.parsed.field_then_escaped_close)
    {
      // attribute to the separator iff the same statement with the separator bytes replaced is fine
      std::vector<std::string> v2 = vals;
      for (auto& v : v2)
        for (size_t q; (q = v.find("\x01\x02\x03")) != std::string::npos;) v.replace(q, 3, "SEP");
      std::vector<Captured> saved = g_sink->got;
      unsigned long long ev = g_eval, vi = g_viol;
      attributed_sep = check_one(tmpl, v2, ctx, false);
      g_eval = ev;
      g_viol = vi;
      g_sink->got = saved;
    }
    if (emit)
    {
      std::string sig = tmpl;
      if (!getenv("VF_SIG_FULL"))
      {
        if (e.parsed.field_then_escaped_close) sig = "adjacent";
        else if (attributed_sep) sig = "separator";
      }
      else if (attributed_sep)
        sig = "separator";
      if (g_sigs.insert(sig).second && (g_sigs.size() < 40 || getenv("VF_SIG_FULL")))
      {
        std::string vs;
        for (auto const& v : vals) vs += "[" + v + "]";
        vf::J("viol")
          .s("kind", "named-args-mismatch")
          .s("template", tmpl)
          .s("values", vs)
          .s("got_message", g_sink->got.empty() ? "<none>" : g_sink->got[0].message)
          .s("want_message", e.message)
          .s("got_pairs", g_sink->got.empty() ? "" : pairs_str(g_sink->got[0].nargs))
          .s("want_pairs", pairs_str(e.pairs))
          .b("placeholder_followed_by_escaped_closing_brace", e.parsed.field_then_escaped_close)
          .b("attributed_to_magic_separator_in_value", attributed_sep)
          .b("identifier_not_starting_with_letter", e.identifier_not_letter)
          .s("context", ctx)
          .s("case", history.empty() ? tmpl : history)
          .emit();
      }
    }
  }
  else if (g_samples < 4 && e.pairs.size() >= 2 && (g_eval % 389) == 7)
  {
    vf::J("sample").s("template", tmpl).s("message", e.message).s("pairs", pairs_str(e.pairs)).emit();
    ++g_samples;
  }
  return ok;
}

static std::vector<std::string> const TOKENS = {"a", " ", "{{", "}}", "{x}", "{y:>4}", "{z:.2}", "{n1}", "{x:*^5}", ",", "{w::>6}"}; // the last one: ':' as the fill character, the spec itself contains a colon

static void run_templates(vf::Args const& a)
{
  int const ntok = static_cast<int>(a.geti("--ntok", 3));
  long const shard = a.geti("--shard", 0), nshards = a.geti("--nshards", 1);
  setup();
  unsigned long long counter = 0;
  size_t const NT = TOKENS.size();
  for (int len = 1; len <= ntok; ++len)
  {
    std::vector<size_t> idx(static_cast<size_t>(len), 0);
    while (true)
    {
      if (static_cast<long>(counter++ % static_cast<unsigned long long>(nshards)) == shard)
      {
        std::string tmpl;
        size_t nf = 0;
        for (size_t i : idx)
        {
          tmpl += TOKENS[i];
          if (TOKENS[i].size() > 2 && TOKENS[i][0] == '{' && TOKENS[i][1] != '{') ++nf;
        }
        if (nf <= 4)
        {
          if (nf == 0)
            check_one(tmpl, {}, "templates");
          else if (nf == 1)
            for (auto const& v : VALUES) check_one(tmpl, {v}, "templates");
          else if (nf == 2)
            for (auto const& v : VALUES)
              for (auto const& w : VALUES) check_one(tmpl, {v, w}, "templates");
          else
            for (size_t r = 0; r < VALUES.size(); ++r)
            {
              std::vector<std::string> vals;
              for (size_t i = 0; i < nf; ++i) vals.push_back(VALUES[(r + i * 3) % VALUES.size()]);
              check_one(tmpl, vals, "templates");
            }
        }
      }
      int p = len - 1;
      while (p >= 0 && ++idx[static_cast<size_t>(p)] == NT)
      {
        idx[static_cast<size_t>(p)] = 0;
        --p;
      }
      if (p < 0) break;
    }
  }
}

// ---- orders: BFS over first-use histories -------------------------------------------------------

static std::vector<std::string> const ORDER_TEMPLATES = {"{x}",        "a {x} {y:>4}", "{y:>4}{x}",      "{{}} {n1}",
                                                          "{x} {x}",   "{z:.2},{x},{n1}", "plain {{no}} args", "{n1} a"};

static std::string cache_key()
{
  detail::BackendWorker* bw = g_worker->_backend_worker;
  std::vector<std::string> ents;
  for (auto const& kv : bw->_named_args_templates)
  {
    std::string e = kv.first + "=>" + kv.second.first + "/";
    for (auto const& n : kv.second.second) e += n.first + ":" + n.second + ";";
    ents.push_back(e);
  }
  std::sort(ents.begin(), ents.end());
  // every backend member the named-args path reads belongs to the key, also the scratch lookup string: it is
  // overwritten before every use today, but leaving it out would merge states if that ever stopped being true
  std::string k = "scratch=" + bw->_named_args_format_template + "|";
  for (auto const& e : ents) k += e + "|";
  return k;
}

// child: replay a history of template indices, checking every step; prints "<ok 0/1>\n<key>\n" to fd
static void child_history(std::vector<int> const& h, int fd)
{
  setup();
  bool ok = true;
  std::string hs;
  for (int t : h) hs += std::to_string(t) + " ";
  size_t step = 0;
  for (int t : h)
  {
    std::string const& tmpl = ORDER_TEMPLATES[static_cast<size_t>(t)];
    Parsed p = scan(tmpl);
    std::vector<std::string> vals;
    for (size_t i = 0; i < p.fields.size(); ++i) vals.push_back(VALUES[(step + i * 2) % 5]); // no separator values here
    // only the last step can be new (prefixes were checked when they were reached), but checking all is cheap
    if (!check_one(tmpl, vals, "orders", true, "history " + hs)) ok = false;
    ++step;
  }
  std::string out = std::string(ok ? "1" : "0") + "\n" + cache_key() + "\n";
  (void)!write(fd, out.data(), out.size());
}

static void run_orders(vf::Args const& a)
{
  int const max_depth = static_cast<int>(a.geti("--depth", 8));
  std::set<std::string> seen;
  std::vector<std::vector<int>> frontier{{}};
  seen.insert("");
  unsigned long long states = 1, transitions = 0;
  int depth = 0;
  bool replay_checked = false;
  while (!frontier.empty() && depth < max_depth)
  {
    std::vector<std::vector<int>> next;
    for (auto const& h : frontier)
      for (int t = 0; t < static_cast<int>(ORDER_TEMPLATES.size()); ++t)
      {
        std::vector<int> h2 = h;
        h2.push_back(t);
        auto exec = [&](std::string& key) -> int
        {
          int pfd[2];
          if (pipe(pfd) != 0) return -1;
          fflush(stdout);
          pid_t pid = fork();
          if (pid == 0)
          {
            close(pfd[0]);
            child_history(h2, pfd[1]);
            fflush(stdout);
            _exit(0);
          }
          close(pfd[1]);
          std::string buf;
          char tmp[4096];
          ssize_t n;
          while ((n = read(pfd[0], tmp, sizeof tmp)) > 0) buf.append(tmp, static_cast<size_t>(n));
          close(pfd[0]);
          int st = 0;
          waitpid(pid, &st, 0);
          if (!WIFEXITED(st) || WEXITSTATUS(st) != 0 || buf.size() < 2) return -1;
          key = buf.substr(2);
          return buf[0] == '1' ? 1 : 0;
        };
        std::string key;
        int r = exec(key);
        ++transitions;
        ++g_eval;
        if (r < 0)
        {
          std::string hs;
          for (int x : h2) hs += std::to_string(x) + " ";
          vf::J("viol").s("kind", "child-crashed").s("case", "history " + hs).emit();
          continue;
        }
        if (!replay_checked && h2.size() == 2)
        {
          // canon-on-replay: same history, same key
          std::string key2;
          exec(key2);
          if (key2 != key) vf::J("error").s("msg", "cache key differs on replay of the same history").emit();
          replay_checked = true;
        }
        if (r == 0) continue; // violation already emitted by the child; do not expand
        if (seen.insert(key).second)
        {
          ++states;
          next.push_back(h2);
        }
      }
    frontier.swap(next);
    ++depth;
  }
  vf::J("stat").u("states", states).u("transitions", transitions).u("traces_validated_against_impl", transitions)
    .u("max_depth_reached", static_cast<unsigned>(depth)).b("exhaustive", frontier.empty()).emit();
  if (!frontier.empty()) vf::J("cap").s("why", "orders BFS depth bound hit before fixpoint").emit();
}

// ---- LOGJ ----------------------------------------------------------------------------------------

struct Obj
{
  int f;
};

static void logj_check(char const* what, std::string const& want_msg, std::vector<std::pair<std::string, std::string>> const& want_pairs,
                       bool ident_not_letter)
{
  for (int i = 0; i < 3; ++i) g_worker->poll_one();
  ++g_eval;
  g_distinct.insert(vf::fnv(want_msg));
  bool ok = g_sink->got.size() == 1 && g_sink->got[0].message == want_msg && g_sink->got[0].nargs == want_pairs;
  if (!ok)
  {
    ++g_viol;
    vf::J("viol")
      .s("kind", "logj-mismatch")
      .s("case", what)
      .s("got_message", g_sink->got.empty() ? "<none>" : g_sink->got[0].message)
      .s("want_message", want_msg)
      .s("got_pairs", g_sink->got.empty() ? "" : pairs_str(g_sink->got[0].nargs))
      .s("want_pairs", pairs_str(want_pairs))
      .b("identifier_not_starting_with_letter", ident_not_letter)
      .b("placeholder_followed_by_escaped_closing_brace", false)
      .b("attributed_to_magic_separator_in_value", false)
      .emit();
  }
  g_sink->got.clear();
}

static void run_logj()
{
  setup();
  int x = 5, var_1 = 6, _u = 7;
  int arr[2] = {8, 9};
  Obj obj{10};
  int pv = 11;
  int* p = &pv;
  std::string s = "str";
  double d = 1.5;
  LOGJ_INFO(g_logger, "J", x);
  logj_check("LOGJ_INFO(l, \"J\", x)", "J 5", {{"x", "5"}}, false);
  LOGJ_INFO(g_logger, "J", x, var_1);
  logj_check("LOGJ_INFO(l, \"J\", x, var_1)", "J 5, 6", {{"x", "5"}, {"var_1", "6"}}, false);
  LOGJ_INFO(g_logger, "J", obj.f, arr[0]);
  logj_check("LOGJ_INFO(l, \"J\", obj.f, arr[0])", "J 10, 8", {{"obj.f", "10"}, {"arr[0]", "8"}}, false);
  LOGJ_INFO(g_logger, "J", s, d, x);
  logj_check("LOGJ_INFO(l, \"J\", s, d, x)", "J str, 1.5, 5", {{"s", "str"}, {"d", "1.5"}, {"x", "5"}}, false);
  LOGJ_INFO(g_logger, "J", _u);
  logj_check("LOGJ_INFO(l, \"J\", _u)", "J 7", {{"_u", "7"}}, true);
  LOGJ_INFO(g_logger, "J", *p);
  logj_check("LOGJ_INFO(l, \"J\", *p)", "J 11", {{"*p", "11"}}, true);
  LOGJ_INFO(g_logger, "J", x, _u);
  logj_check("LOGJ_INFO(l, \"J\", x, _u)", "J 5, 7", {{"x", "5"}, {"_u", "7"}}, true);
  LOGJ_WARNING(g_logger, "", x);
  logj_check("LOGJ_WARNING(l, \"\", x)", " 5", {{"x", "5"}}, false);
  // macro limit: 26 variables
  int a1 = 1, b1 = 2, c1 = 3, d1 = 4, e1 = 5, f1 = 6, g1 = 7, h1 = 8, i1 = 9, j1 = 10, k1 = 11, l1 = 12, m1 = 13, n1 = 14, o1 = 15,
      p1 = 16, q1 = 17, r1 = 18, s1 = 19, t1 = 20, u1 = 21, v1 = 22, w1 = 23, x1 = 24, y1 = 25, z1 = 26;
  LOGJ_INFO(g_logger, "M", a1, b1, c1, d1, e1, f1, g1, h1, i1, j1, k1, l1, m1, n1, o1, p1, q1, r1, s1, t1, u1, v1, w1, x1, y1, z1);
  {
    std::string m = "M ";
    std::vector<std::pair<std::string, std::string>> pr;
    char const* names = "abcdefghijklmnopqrstuvwxyz";
    for (int i = 0; i < 26; ++i)
    {
      if (i) m += ", ";
      m += std::to_string(i + 1);
      pr.emplace_back(std::string(1, names[i]) + "1", std::to_string(i + 1));
    }
    logj_check("LOGJ_INFO with 26 variables", m, pr, false);
  }
  // typed specs through LOG_ with explicit named placeholders
  LOG_INFO(g_logger, "{i:04d} {dd:.2f} {ss:>5}", x, d, s);
  logj_check("LOG_INFO(l, \"{i:04d} {dd:.2f} {ss:>5}\", 5, 1.5, \"str\")", "0005 1.50   str", {{"i", "0005"}, {"dd", "1.50"}, {"ss", "  str"}}, false);
}

// ---- JSON ----------------------------------------------------------------------------------------

static void run_json(vf::Args const& a)
{
  std::string const dir = a.get("--dir", "/dev/shm");
  std::string const file = dir + "/c19.json.log";
  FileSinkConfig cfg;
  cfg.set_open_mode('w');
  auto js = Frontend::create_or_get_sink<JsonFileSink>(file, cfg, FileEventNotifier{});
  setup({js});
  std::ofstream exp(dir + "/c19.expected.jsonl");
  std::vector<std::string> const safe_vals = {"v", "", "s p", "a,b", "k:v", "x=1;y=2"};
  std::vector<std::string> tmpls = {"{x}", "a {x} {y:>4}", "{y:>4}{x}", "{{}} {n1}", "{x} {x}", "{z:.2},{x},{n1}", "plain {{no}} args",
                                    "{n1} a", "multi\nline {x}\n", "{x:*^5}|{y:>4}|{z:.2}|{n1}",
                                    // a newline only at the very end (the backend strips one trailing newline of the message
                                    // before the sinks see it), only at the start, doubled
                                    "tail {x}\n", "{x}\n", "\n{x}", "two {x}\n\n", "{x}\n{y:>4}"};
  size_t n = 0;
  for (auto const& t : tmpls)
    for (size_t r = 0; r < safe_vals.size(); ++r)
    {
      Parsed p = scan(t);
      std::vector<std::string> vals;
      for (size_t i = 0; i < p.fields.size(); ++i) vals.push_back(safe_vals[(r + i) % safe_vals.size()]);
      g_sink->got.clear();
      log_strings(md_for(t), vals);
      for (int i = 0; i < 3; ++i) g_worker->poll_one();
      Expect e = expect_for(t, vals);
      std::string tj = t;
      for (auto& c : tj)
        if (c == '\n') c = ' ';
      // expected object as JSON (keys in order)
      std::string o = "{\"template\":\"" + vf::jesc(tj) + "\",\"pairs\":[";
      for (size_t i = 0; i < e.pairs.size(); ++i)
      {
        if (i) o += ",";
        o += "[\"" + vf::jesc(e.pairs[i].first) + "\",\"" + vf::jesc(e.pairs[i].second) + "\"]";
      }
      o += "],\"logger\":\"L\",\"level\":\"INFO\",\"file_name\":\"f.cpp\",\"line\":\"7\",\"timestamp\":\"1718451898123456789\"}";
      exp << o << "\n";
      ++n;
      ++g_eval;
    }
  // flush the file sink
  g_logger->log_statement<false, false>(LogLevel::None, md_for("end"));
  for (int i = 0; i < 4; ++i) g_worker->poll_one();
  exp << "{\"template\":\"end\",\"pairs\":[],\"logger\":\"L\",\"level\":\"INFO\",\"file_name\":\"f.cpp\",\"line\":\"7\",\"timestamp\":\"1718451898123456789\"}\n";
  exp.close();
  Frontend::remove_logger(g_logger);
  js.reset();
  for (int i = 0; i < 4; ++i) g_worker->poll_one();
  vf::J("note").s("msg", "json statements written: " + std::to_string(n + 1)).emit();
}

// ---- reuse of event objects: backtrace ring slots and backend transit slots hold statements of different kinds one after
// the other (named / positional / without arguments); every statement the sink gets carries exactly its own pairs
static void run_ring()
{
  setup();
  static constexpr MacroMetadata bt_named{"/d/f.cpp:8", "fn", "bn {alpha} {beta:>4}", nullptr, LogLevel::Backtrace, MacroMetadata::Event::Log};
  static constexpr MacroMetadata bt_named1{"/d/f.cpp:9", "fn", "b1 {gamma}", nullptr, LogLevel::Backtrace, MacroMetadata::Event::Log};
  static constexpr MacroMetadata bt_pos{"/d/f.cpp:10", "fn", "bp {} / {}", nullptr, LogLevel::Backtrace, MacroMetadata::Event::Log};
  static constexpr MacroMetadata bt_none{"/d/f.cpp:11", "fn", "b0", nullptr, LogLevel::Backtrace, MacroMetadata::Event::Log};
  struct K
  {
    char const* message;
    std::vector<std::pair<std::string, std::string>> pairs;
  };
  K const kinds[4] = {{"bn 11   22", {{"alpha", "11"}, {"beta", "  22"}}}, {"b1 7", {{"gamma", "7"}}}, {"bp 1 / 2", {}}, {"b0", {}}};
  auto issue = [&](int k)
  {
    switch (k)
    {
    case 0: g_logger->log_statement<false, false>(LogLevel::None, &bt_named, 11, 22); break;
    case 1: g_logger->log_statement<false, false>(LogLevel::None, &bt_named1, 7); break;
    case 2: g_logger->log_statement<false, false>(LogLevel::None, &bt_pos, 1, 2); break;
    default: g_logger->log_statement<false, false>(LogLevel::None, &bt_none); break;
    }
  };
  // every sequence of up to 5 backtrace statements over the four kinds x ring capacity 1..3, flushed explicitly; then the same
  // again without re-initialising (slots of the previous cycle are reused)
  for (uint32_t cap = 1; cap <= 3; ++cap)
    for (int len = 1; len <= 5; ++len)
    {
      int total = 1;
      for (int i = 0; i < len; ++i) total *= 4;
      for (int code = 0; code < total; ++code)
      {
        std::vector<int> seq;
        for (int i = 0, c = code; i < len; ++i, c /= 4) seq.push_back(c % 4);
        g_logger->init_backtrace(cap, LogLevel::Critical);
        for (int p = 0; p < 3; ++p) g_worker->poll_one();
        for (int cycle = 0; cycle < 2; ++cycle)
        {
          g_sink->got.clear();
          for (int k : seq) issue(k);
          g_logger->flush_backtrace();
          for (int p = 0; p < 6; ++p) g_worker->poll_one();
          size_t const n = std::min<size_t>(cap, seq.size());
          ++g_eval;
          std::string cs = "capacity " + std::to_string(cap) + " kinds";
          for (int k : seq) cs += " " + std::to_string(k);
          cs += cycle ? " (second cycle)" : "";
          g_distinct.insert(vf::fnv(cs));
          if (g_sink->got.size() != n)
          {
            ++g_viol;
            if (g_sigs.insert("ring-count").second) vf::J("viol").s("kind", "backtrace-replay-count").s("case", cs).s("detail", std::to_string(g_sink->got.size()) + " statements replayed, expected " + std::to_string(n)).emit();
            continue;
          }
          for (size_t i = 0; i < n; ++i)
          {
            K const& want = kinds[seq[seq.size() - n + i]];
            Captured const& got = g_sink->got[i];
            std::vector<std::pair<std::string, std::string>> const none;
            auto const& gp = got.has_nargs ? got.nargs : none;
            if (got.message != want.message || gp != want.pairs)
            {
              ++g_viol;
              if (g_sigs.insert("ring-pairs").second || g_sigs.size() < 6)
              {
                g_sigs.insert(cs);
                vf::J("viol").s("kind", "event-object-reuse-leaks-named-args").s("case", cs).s("detail", "replayed statement #" + std::to_string(i) + " '" + got.message + "' carries [" + pairs_str(gp) + "], expected '" + want.message + "' with [" + pairs_str(want.pairs) + "]").emit();
              }
            }
          }
        }
      }
    }
}

int main(int argc, char** argv)
{
  vf::Args a{argc, argv};
  std::string mode = a.get("--mode", "templates");
  if (char const* t = a.get("--template"))
  {
    // replay: one template with values given as repeated --value is not needed; use the value alphabet
    setup();
    Parsed p = scan(t);
    for (size_t r = 0; r < VALUES.size(); ++r)
    {
      std::vector<std::string> vals;
      for (size_t i = 0; i < p.fields.size(); ++i) vals.push_back(VALUES[(r + i * 3) % VALUES.size()]);
      check_one(t, vals, "replay");
    }
    vf::done();
    return 0;
  }
  if (mode == "templates")
    run_templates(a);
  else if (mode == "orders")
    run_orders(a);
  else if (mode == "logj")
    run_logj();
  else if (mode == "json")
    run_json(a);
  else if (mode == "ring")
    run_ring();
  vf::J("stat").u("evaluations", g_eval).u("distinct_nontrivial", g_distinct.size()).u("mismatches_total", g_viol).emit();
  vf::done();
  return 0;
}
