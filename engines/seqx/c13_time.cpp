// C13: explicit-state BFS (to fixpoint) over sequences of instants for every timestamp pattern of a
// token alphabet, on the real quill::detail::TimestampFormatter / StringFromTime, against libc
// strftime evaluated per instant.  State = the cache fields of both StringFromTime parts (the full
// mutable state of the formatter), snapshotted/restored by value.
//
// argv: --zone <TZ name> --mode gmt|local --ntok <1..3> --shard i --nshards n [--emod 1] [--pattern P --seq "t1 t2 .."]
#include "quill/backend/TimestampFormatter.h"
#include "quill/core/QuillError.h"

#include "vf_out.h"

#include <algorithm>
#include <ctime>
#include <map>
#include <set>
#include <string>
#include <unordered_map>
#include <unordered_set>
#include <vector>

using namespace quill;
using namespace quill::detail;

static std::vector<std::string> const BASE_CONV = {
  "%a", "%A", "%b", "%B", "%c", "%C", "%d", "%D", "%e", "%F", "%g", "%G", "%h", "%H", "%I", "%j", "%k", "%l", "%m",
  "%M", "%n", "%p", "%P", "%r", "%R", "%s", "%S", "%t", "%T", "%u", "%U", "%V", "%w", "%W", "%x", "%y", "%Y", "%z",
  "%Z", "%%"};
static std::vector<std::string> const EO_CONV = {"%Ec", "%EC", "%Ex", "%EX", "%Ey", "%EY", "%Od", "%Oe", "%OH", "%OI",
                                                 "%Om", "%OM", "%OS", "%Ou", "%OU", "%OV", "%Ow", "%OW", "%Oy"};
static std::vector<std::string> const LITS = {":", " ", "T", "."};
// conversions whose output depends on the time of day but which StringFromTime does not split out
static std::vector<std::string> const UNSPLIT = {"%c", "%Ec", "%EX", "%OH", "%OI", "%OM", "%OS"};

static bool g_gmt = true;

static std::string oracle(std::string const& pattern_with_q, time_t secs, uint32_t ns)
{
  // strftime of the whole pattern, with %Qms/%Qus/%Qns replaced by the zero padded fraction
  std::string p = pattern_with_q;
  char frac[16];
  size_t pos;
  if ((pos = p.find("%Qms")) != std::string::npos)
  {
    snprintf(frac, sizeof frac, "%03u", ns / 1000000u);
    p.replace(pos, 4, frac);
  }
  else if ((pos = p.find("%Qus")) != std::string::npos)
  {
    snprintf(frac, sizeof frac, "%06u", ns / 1000u);
    p.replace(pos, 4, frac);
  }
  else if ((pos = p.find("%Qns")) != std::string::npos)
  {
    snprintf(frac, sizeof frac, "%09u", ns);
    p.replace(pos, 4, frac);
  }
  if (p.empty()) return {};
  tm ti{};
  if (g_gmt)
    gmtime_r(&secs, &ti);
  else
    localtime_r(&secs, &ti);
  std::vector<char> buf(256);
  // a leading marker makes an empty expansion distinguishable from "buffer too small"
  std::string fmt = "|" + p;
  size_t n = strftime(buf.data(), buf.size(), fmt.c_str(), &ti);
  while (n == 0)
  {
    buf.resize(buf.size() * 2);
    n = strftime(buf.data(), buf.size(), fmt.c_str(), &ti);
  }
  return std::string(buf.data() + 1, n - 1);
}

struct Snap
{
  StringFromTime p1, p2;
};

static std::string key_of(StringFromTime const& s)
{
  std::string k = std::to_string(s._cached_timestamp) + "/" + std::to_string(s._next_recalculation_timestamp) + "/" +
    std::to_string(s._cached_seconds) + "/" + s._pre_formatted_ts + "/";
  // every mutable member belongs to the key (the positions are normally a function of the pattern and the
  // pre-formatted text, but a key that leaves them out would merge states with different futures if they were not)
  for (auto const& ci : s._cached_indexes) k += std::to_string(ci.first) + ":" + std::to_string(static_cast<int>(ci.second)) + ",";
  return k;
}

static std::vector<time_t> make_instants(bool local)
{
  std::set<time_t> s;
  s.insert(1000000000);     // first ten-digit epoch, 2001-09-09
  s.insert(1000000000 + 1);
  // a day in 2024: 11:44:58Z and the boundaries after it
  time_t const base = 1718451898; // 2024-06-15 11:44:58 UTC
  for (time_t d : {0, 1, 2, 3, 62, 902, 901})
    s.insert(base + d); // second, quarter-hour (11:45:00 = +2), minute, noon (12:00:00 = +902)
  s.insert(base + 902 + 3600);            // 13:00:00
  s.insert(base + 902 + 12 * 3600 - 1);   // 23:59:59
  s.insert(base + 902 + 12 * 3600);       // 00:00:00 next day
  s.insert(base + 902 + 12 * 3600 + 1);
  s.insert(base + 902 + 13 * 3600 + 61);  // 01:01:01
  s.insert(4102444799);     // 2099-12-31 23:59:59Z
  s.insert(4102444800);     // 2100-01-01
  if (local)
  {
    // DST transitions of the process zone during 2024 (found by scanning tm_gmtoff in 15-minute steps)
    time_t const y0 = 1704067200; // 2024-01-01Z
    tm a{};
    localtime_r(&y0, &a);
    long prev = a.tm_gmtoff;
    int found = 0;
    for (time_t t = y0; t < y0 + 366 * 86400 && found < 2; t += 900)
    {
      tm b{};
      localtime_r(&t, &b);
      if (b.tm_gmtoff != prev)
      {
        s.insert(t - 1);
        s.insert(t);
        s.insert(t + 1);
        s.insert(t + 900);
        prev = b.tm_gmtoff;
        ++found;
      }
    }
    // local midnight and local noon following base
    tm b{};
    localtime_r(&base, &b);
    time_t to_midnight = 86400 - (b.tm_hour * 3600 + b.tm_min * 60 + b.tm_sec);
    s.insert(base + to_midnight - 1);
    s.insert(base + to_midnight);
    time_t to_noon = (12 * 3600 - (b.tm_hour * 3600 + b.tm_min * 60 + b.tm_sec) + 86400) % 86400;
    s.insert(base + to_noon - 1);
    s.insert(base + to_noon);
  }
  return std::vector<time_t>(s.begin(), s.end());
}

static uint32_t const FRACS[] = {0u, 1u, 999u, 1000u, 999999u, 1000000u, 123456789u, 999999999u};

struct PatternResult
{
  unsigned long long states{0}, transitions{0};
  bool violated{false};
  std::string v_seq, v_got, v_want;
};

// BFS to fixpoint over instant sequences for one pattern.
static PatternResult explore(std::string const& pattern, std::vector<time_t> const& instants, bool stop_at_first)
{
  PatternResult res;
  TimestampFormatter tf{pattern, g_gmt ? Timezone::GmtTime : Timezone::LocalTime};
  // oracle per (instant, frac index) is pure: compute lazily
  std::vector<std::vector<std::string>> want(instants.size(), std::vector<std::string>(8));
  std::vector<std::vector<bool>> have(instants.size(), std::vector<bool>(8, false));
  auto W = [&](size_t i, size_t f) -> std::string const&
  {
    if (!have[i][f])
    {
      want[i][f] = oracle(pattern, instants[i], FRACS[f]);
      have[i][f] = true;
    }
    return want[i][f];
  };

  struct Node
  {
    Snap snap;
    int parent;
    int via;
  };
  std::vector<Node> nodes;
  std::unordered_map<std::string, int> index;
  nodes.push_back({{tf._strftime_part_1, tf._strftime_part_2}, -1, -1});
  index.emplace(key_of(tf._strftime_part_1) + "#" + key_of(tf._strftime_part_2), 0);
  res.states = 1;
  for (size_t cur = 0; cur < nodes.size(); ++cur)
  {
    for (size_t i = 0; i < instants.size(); ++i)
    {
      tf._strftime_part_1 = nodes[cur].snap.p1;
      tf._strftime_part_2 = nodes[cur].snap.p2;
      size_t const f = (cur * 7 + i) % 8; // fraction does not touch the state; cycled deterministically
      int64_t const ns = static_cast<int64_t>(instants[i]) * 1000000000ll + FRACS[f];
      std::string_view got = tf.format_timestamp(std::chrono::nanoseconds{ns});
      ++res.transitions;
      if (got != W(i, f))
      {
        if (!res.violated)
        {
          res.violated = true;
          // reconstruct the instant sequence
          std::vector<time_t> seq{instants[i]};
          for (int n = static_cast<int>(cur); nodes[n].parent >= 0; n = nodes[n].parent)
            seq.push_back(instants[nodes[n].via]);
          std::reverse(seq.begin(), seq.end());
          for (auto t : seq) res.v_seq += std::to_string(t) + " ";
          res.v_seq += "frac=" + std::to_string(FRACS[f]);
          res.v_got = std::string(got);
          res.v_want = W(i, f);
        }
        if (stop_at_first) return res;
        continue; // do not expand from a wrong rendering
      }
      std::string k = key_of(tf._strftime_part_1) + "#" + key_of(tf._strftime_part_2);
      auto it = index.find(k);
      if (it == index.end())
      {
        index.emplace(std::move(k), static_cast<int>(nodes.size()));
        nodes.push_back({{tf._strftime_part_1, tf._strftime_part_2}, static_cast<int>(cur), static_cast<int>(i)});
        ++res.states;
      }
    }
  }
  // every fraction value at every instant from the initial state
  for (size_t i = 0; i < instants.size() && !res.violated; ++i)
    for (size_t f = 0; f < 8; ++f)
    {
      tf._strftime_part_1 = nodes[0].snap.p1;
      tf._strftime_part_2 = nodes[0].snap.p2;
      int64_t const ns = static_cast<int64_t>(instants[i]) * 1000000000ll + FRACS[f];
      std::string_view got = tf.format_timestamp(std::chrono::nanoseconds{ns});
      ++res.transitions;
      if (got != W(i, f))
      {
        res.violated = true;
        res.v_seq = std::to_string(instants[i]) + " frac=" + std::to_string(FRACS[f]);
        res.v_got = std::string(got);
        res.v_want = W(i, f);
        break;
      }
    }
  // two timestamps inside the same second, every ordered pair of fractions (also stepping backwards within the second, also
  // a fraction with fewer significant digits after one with more): the fraction of the first must leave no trace
  for (size_t i = 0; i < instants.size() && !res.violated; ++i)
    for (size_t f1 = 0; f1 < 8 && !res.violated; ++f1)
      for (size_t f2 = 0; f2 < 8; ++f2)
      {
        tf._strftime_part_1 = nodes[0].snap.p1;
        tf._strftime_part_2 = nodes[0].snap.p2;
        int64_t const base = static_cast<int64_t>(instants[i]) * 1000000000ll;
        // (a rendering of another second first: whatever an earlier pair left in the formatter is gone, the reported
        // three-step sequence is self-contained)
        time_t const other = instants[i == 0 ? 1 : 0];
        (void)tf.format_timestamp(std::chrono::nanoseconds{static_cast<int64_t>(other) * 1000000000ll});
        tf._strftime_part_1 = nodes[0].snap.p1;
        tf._strftime_part_2 = nodes[0].snap.p2;
        (void)tf.format_timestamp(std::chrono::nanoseconds{base + FRACS[f1]});
        std::string_view got = tf.format_timestamp(std::chrono::nanoseconds{base + FRACS[f2]});
        res.transitions += 3;
        if (got != W(i, f2))
        {
          res.violated = true;
          res.v_seq = std::to_string(other) + " " + std::to_string(instants[i]) + "(frac=" + std::to_string(FRACS[f1]) + ") " + std::to_string(instants[i]) + " frac=" + std::to_string(FRACS[f2]);
          res.v_got = std::string(got);
          res.v_want = W(i, f2);
          break;
        }
      }
  return res;
}

static bool contains_tok(std::vector<std::string> const& toks, std::string const& t)
{
  return std::find(toks.begin(), toks.end(), t) != toks.end();
}

int main(int argc, char** argv)
{
  vf::Args a{argc, argv};
  std::string const zone = a.get("--zone", "UTC");
  std::string const mode = a.get("--mode", "gmt");
  int const ntok = static_cast<int>(a.geti("--ntok", 2));
  long const shard = a.geti("--shard", 0), nshards = a.geti("--nshards", 1);
  bool const emod = a.geti("--emod", 0) != 0;
  int const fracmode = static_cast<int>(a.geti("--frac", 1)); // 0 none, 1 one kind rotating per position, 2 all kinds
  setenv("TZ", zone.c_str(), 1);
  tzset();
  g_gmt = (mode == "gmt");
  bool const zone_is_utc = (zone == "UTC");
  std::vector<time_t> const instants = make_instants(!g_gmt);

  if (char const* pat = a.get("--pattern"))
  {
    // replay: one pattern, one instant sequence ("t t t frac=N")
    std::string seq = a.get("--seq", "");
    TimestampFormatter tf{pat, g_gmt ? Timezone::GmtTime : Timezone::LocalTime};
    std::vector<time_t> ts;
    std::vector<uint32_t> fr; // per instant: "T(frac=N)"
    uint32_t frac = 0;
    size_t p = 0;
    while (p < seq.size())
    {
      size_t e = seq.find(' ', p);
      if (e == std::string::npos) e = seq.size();
      std::string tok = seq.substr(p, e - p);
      if (tok.rfind("frac=", 0) == 0)
        frac = static_cast<uint32_t>(strtoul(tok.c_str() + 5, nullptr, 10));
      else if (!tok.empty())
      {
        ts.push_back(static_cast<time_t>(strtoll(tok.c_str(), nullptr, 10)));
        size_t const q = tok.find("(frac=");
        fr.push_back(q == std::string::npos ? 0u : static_cast<uint32_t>(strtoul(tok.c_str() + q + 6, nullptr, 10)));
      }
      p = e + 1;
    }
    for (size_t i = 0; i < ts.size(); ++i)
    {
      uint32_t f = (i + 1 == ts.size()) ? frac : fr[i];
      std::string got{tf.format_timestamp(std::chrono::nanoseconds{static_cast<int64_t>(ts[i]) * 1000000000ll + f})};
      std::string want = oracle(pat, ts[i], f);
      if (i + 1 == ts.size() && got != want)
        vf::J("viol").s("kind", "mismatch").s("pattern", pat).s("zone", zone).s("mode", mode).s("seq", seq).s("got", got).s("want", want).emit();
    }
    vf::done();
    return 0;
  }

  std::vector<std::string> toks = BASE_CONV;
  if (emod) toks.insert(toks.end(), EO_CONV.begin(), EO_CONV.end());
  toks.insert(toks.end(), LITS.begin(), LITS.end());
  size_t const NT = toks.size();
  static char const* const QS[3] = {"%Qms", "%Qus", "%Qns"};

  unsigned long long patterns = 0, states = 0, transitions = 0, rejected_ok = 0, skipped = 0, viols = 0, max_states = 0;
  unsigned long long counter = 0;
  std::set<std::string> viol_sigs;
  size_t samples = 0;

  auto handle = [&](std::vector<std::string> const& seq_toks, int qpos, int qkind)
  {
    // build the pattern string
    std::string pattern;
    for (size_t i = 0; i <= seq_toks.size(); ++i)
    {
      if (static_cast<int>(i) == qpos) pattern += QS[qkind];
      if (i < seq_toks.size()) pattern += seq_toks[i];
    }
    // property exclusions
    for (size_t i = 0; i + 1 < seq_toks.size(); ++i)
      if (seq_toks[i] == "%%" && static_cast<int>(i + 1) != qpos)
      {
        char c = seq_toks[i + 1][0];
        if (c == 'H' || c == 'M' || c == 'S' || c == 'I' || c == 'k' || c == 'l' || c == 's')
        {
          ++skipped;
          return;
        }
      }
    if (contains_tok(seq_toks, "%s") && g_gmt && !zone_is_utc)
    {
      ++skipped;
      return;
    }
    ++patterns;
    PatternResult r;
    try
    {
      r = explore(pattern, instants, false);
    }
    catch (QuillError const& e)
    {
      vf::J("viol").s("kind", "unexpected-reject").s("pattern", pattern).s("zone", zone).s("mode", mode).s("what", e.what()).emit();
      ++viols;
      return;
    }
    states += r.states;
    transitions += r.transitions;
    max_states = std::max(max_states, r.states);
    if (samples < 3 && r.states > 20 && (counter % 37) == 0)
    {
      vf::J("sample").s("pattern", pattern).s("zone", zone).s("mode", mode).u("cache_states", r.states).u("transitions", r.transitions).emit();
      ++samples;
    }
    if (r.violated)
    {
      // attribute to an unsplit time-of-day conversion iff the same pattern with those conversions
      // replaced by a neutral literal is clean
      std::vector<std::string> unsplit_in;
      std::vector<std::string> residual = seq_toks;
      for (auto& t : residual)
        if (contains_tok(UNSPLIT, t))
        {
          unsplit_in.push_back(t);
          t = "_";
        }
      // literal "%%" directly followed by a letter that quill expands textually (%T %R %r) or rejects (%X)
      bool escaped_before_expanded = false;
      for (size_t i = 0; i + 1 < residual.size(); ++i)
        if (seq_toks[i] == "%%" && static_cast<int>(i + 1) != qpos && strchr("TRrX", seq_toks[i + 1][0]))
        {
          escaped_before_expanded = true;
          residual[i] = "_";
        }
      bool attributed = false;
      if (!unsplit_in.empty() || escaped_before_expanded)
      {
        std::string rp;
        for (size_t i = 0; i <= residual.size(); ++i)
        {
          if (static_cast<int>(i) == qpos) rp += QS[qkind];
          if (i < residual.size()) rp += residual[i];
        }
        PatternResult rr = explore(rp, instants, true);
        attributed = !rr.violated;
      }
      std::string sig = pattern;
      if (attributed)
      {
        // one record per distinct cause is enough
        std::set<std::string> us(unsplit_in.begin(), unsplit_in.end());
        sig = escaped_before_expanded ? "esc:" : "unsplit:";
        for (auto const& u : us) sig += u;
      }
      if (viol_sigs.insert(sig).second && viol_sigs.size() <= 40)
      {
        vf::J("viol")
          .s("kind", "mismatch")
          .s("pattern", pattern)
          .s("zone", zone)
          .s("mode", mode)
          .s("seq", r.v_seq)
          .s("got", r.v_got)
          .s("want", r.v_want)
          .sv("unsplit_conversions", unsplit_in)
          .b("attributed_to_unsplit_conversion", attributed && !unsplit_in.empty() && !escaped_before_expanded)
          .b("attributed_to_escaped_percent_before_TRrX", attributed && escaped_before_expanded)
          .emit();
      }
      ++viols;
    }
  };

  // enumerate token sequences of length 1..ntok, sharded by running index
  std::vector<size_t> idx;
  for (int len = 1; len <= ntok; ++len)
  {
    idx.assign(static_cast<size_t>(len), 0);
    while (true)
    {
      std::vector<std::string> seq_toks;
      for (size_t i : idx) seq_toks.push_back(toks[i]);
      // without fraction
      if ((counter++ % static_cast<unsigned long long>(nshards)) == static_cast<unsigned long long>(shard))
      {
        handle(seq_toks, -1, 0);
        if (fracmode == 1)
          for (int qp = 0; qp <= len; ++qp) handle(seq_toks, qp, static_cast<int>((counter + static_cast<unsigned>(qp)) % 3));
        else if (fracmode == 2)
          for (int qp = 0; qp <= len; ++qp)
            for (int qk = 0; qk < 3; ++qk) handle(seq_toks, qp, qk);
      }
      // next
      int p = len - 1;
      while (p >= 0 && ++idx[static_cast<size_t>(p)] == NT)
      {
        idx[static_cast<size_t>(p)] = 0;
        --p;
      }
      if (p < 0) break;
    }
  }

  // rejections (shard 0 only): %X anywhere, two fractional specifiers (same or different kinds)
  if (shard == 0)
  {
    std::vector<std::string> must_reject = {"%X", "%H:%X", "%X%Qms", "%d %X %Y"};
    for (int i = 0; i < 3; ++i)
      for (int j = 0; j < 3; ++j)
      {
        must_reject.push_back(std::string(QS[i]) + QS[j]);
        must_reject.push_back(std::string("%H:") + QS[i] + ".%S" + QS[j]);
      }
    for (auto const& p : must_reject)
    {
      bool thrown = false;
      try
      {
        TimestampFormatter tf{p, g_gmt ? Timezone::GmtTime : Timezone::LocalTime};
      }
      catch (QuillError const&)
      {
        thrown = true;
      }
      ++patterns;
      if (thrown)
        ++rejected_ok;
      else
      {
        bool same_twice = false;
        for (int i = 0; i < 3; ++i)
        {
          size_t f = p.find(QS[i]);
          if (f != std::string::npos && p.find(QS[i], f + 1) != std::string::npos) same_twice = true;
        }
        vf::J("viol").s("kind", "not-rejected").s("pattern", p).s("zone", zone).s("mode", mode).b("same_specifier_twice", same_twice).emit();
        ++viols;
      }
    }
  }

  vf::J("stat")
    .u("patterns", patterns)
    .u("states", states)
    .u("transitions", transitions)
    .u("executions", transitions)
    .u("traces_validated_against_impl", transitions)
    .u("rejections_confirmed", rejected_ok)
    .u("patterns_excluded_by_property", skipped)
    .u("max_cache_states_per_pattern", max_states)
    .u("max_instants_in_alphabet", instants.size())
    .emit();
  vf::done();
  return 0;
}
