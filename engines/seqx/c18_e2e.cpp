// C18 (end to end): every history up to the depth bound over backtrace / ordinary / dynamic-level statements,
// explicit flushes and (re)initialisations on two loggers, through the real frontend macros and the real backend
// (ManualBackendWorker, polled after every operation), against a reference deque per logger.
//
// argv: --depth N --shard i --nshards n [--replay "ops"]
#include "quill/Backend.h"
#include "quill/Frontend.h"
#include "quill/LogMacros.h"
#include "quill/Logger.h"
#include "quill/UserClockSource.h"
#include "quill/backend/ManualBackendWorker.h"
#include "quill/sinks/Sink.h"

#include "vf_out.h"

#include <deque>
#include <set>
#include <sstream>
#include <string>
#include <vector>

using namespace quill;

struct CaptureSink : public Sink
{
  std::vector<std::string> got;
  void write_log(MacroMetadata const*, uint64_t, std::string_view, std::string_view, std::string const&, std::string_view,
                 LogLevel, std::string_view, std::string_view, std::vector<std::pair<std::string, std::string>> const*,
                 std::string_view msg, std::string_view) override
  {
    got.emplace_back(msg);
  }
  void flush_sink() override {}
};

struct TickClock : public UserClockSource
{
  mutable uint64_t t{1718451898000000000ull};
  uint64_t now() const override { return ++t; }
};

// op codes: logger 1: B I E Di Dc F N0 N1 N2 N3e ; logger 2: b e f
static std::vector<std::string> const OPS = {"B", "I", "E", "Di", "Dc", "F", "N1", "N2e", "N3", "N0", "b", "e", "f"};

struct RefLogger
{
  bool init{false};
  int cap{0};
  bool flush_on_error{false};
  std::deque<std::string> stored;
};

static ManualBackendWorker* g_worker;
static std::vector<std::string> g_notes;

static void ref_store(RefLogger& r, std::string const& m)
{
  if (!r.init || r.cap == 0) return;
  r.stored.push_back(m);
  while (static_cast<int>(r.stored.size()) > r.cap) r.stored.pop_front();
}
static void ref_flush(RefLogger& r, std::vector<std::string>& out)
{
  for (auto const& m : r.stored) out.push_back(m);
  r.stored.clear();
}
static void ref_init(RefLogger& r, int cap, bool on_error)
{
  if (!r.init || r.cap != cap) r.stored.clear();
  r.init = true;
  r.cap = cap;
  r.flush_on_error = on_error;
}

struct Result
{
  bool ok{true};
  int step{-1};
  std::vector<std::string> got, want;
};

static int g_logger_no = 0;
static TickClock g_clock;

static Result run_history(std::vector<int> const& h)
{
  Result res;
  auto s1 = std::make_shared<CaptureSink>();
  auto s2 = std::make_shared<CaptureSink>();
  int const no = g_logger_no++;
  Logger* l1 = Frontend::create_or_get_logger("A" + std::to_string(no), s1, PatternFormatterOptions{"%(message)"}, ClockSourceType::User, &g_clock);
  Logger* l2 = Frontend::create_or_get_logger("B" + std::to_string(no), s2, PatternFormatterOptions{"%(message)"}, ClockSourceType::User, &g_clock);
  RefLogger r1, r2;
  // both loggers start initialised (capacity 2, no flush level) so that LOG_BACKTRACE is always legal
  l1->init_backtrace(2);
  l2->init_backtrace(2);
  ref_init(r1, 2, false);
  ref_init(r2, 2, false);
  g_worker->poll();
  std::vector<std::string> want1, want2;
  int n = 0;
  for (size_t i = 0; i < h.size(); ++i)
  {
    std::string const& op = OPS[static_cast<size_t>(h[i])];
    std::string const m = "m" + std::to_string(++n);
    if (op == "B")
    {
      LOG_BACKTRACE(l1, "{}", m);
      ref_store(r1, m);
    }
    else if (op == "I")
    {
      LOG_INFO(l1, "{}", m);
      want1.push_back(m);
    }
    else if (op == "E")
    {
      LOG_ERROR(l1, "{}", m);
      want1.push_back(m);
      if (r1.flush_on_error) ref_flush(r1, want1);
    }
    else if (op == "Di")
    {
      LOG_DYNAMIC(l1, LogLevel::Info, "{}", m);
      want1.push_back(m);
    }
    else if (op == "Dc")
    {
      LOG_DYNAMIC(l1, LogLevel::Critical, "{}", m);
      want1.push_back(m);
      if (r1.flush_on_error) ref_flush(r1, want1);
    }
    else if (op == "F")
    {
      l1->flush_backtrace();
      ref_flush(r1, want1);
    }
    else if (op == "N1")
    {
      l1->init_backtrace(1);
      ref_init(r1, 1, false);
    }
    else if (op == "N2e")
    {
      l1->init_backtrace(2, LogLevel::Error);
      ref_init(r1, 2, true);
    }
    else if (op == "N3")
    {
      l1->init_backtrace(3);
      ref_init(r1, 3, false);
    }
    else if (op == "N0")
    {
      l1->init_backtrace(0);
      ref_init(r1, 0, false);
    }
    else if (op == "b")
    {
      LOG_BACKTRACE(l2, "{}", m);
      ref_store(r2, m);
    }
    else if (op == "e")
    {
      LOG_ERROR(l2, "{}", m);
      want2.push_back(m);
      if (r2.flush_on_error) ref_flush(r2, want2);
    }
    else if (op == "f")
    {
      l2->flush_backtrace();
      ref_flush(r2, want2);
    }
    g_worker->poll();
    if (s1->got != want1 || s2->got != want2)
    {
      res.ok = false;
      res.step = static_cast<int>(i);
      res.got = s1->got != want1 ? s1->got : s2->got;
      res.want = s1->got != want1 ? want1 : want2;
      break;
    }
  }
  Frontend::remove_logger(l1);
  Frontend::remove_logger(l2);
  g_worker->poll_one();
  g_worker->poll_one();
  return res;
}

static std::string hist_str(std::vector<int> const& h, size_t upto)
{
  std::string s;
  for (size_t i = 0; i < h.size() && i <= upto; ++i) s += (i ? " " : "") + OPS[static_cast<size_t>(h[i])];
  return s;
}

static std::string join(std::vector<std::string> const& v)
{
  std::string s;
  for (auto const& x : v) s += x + " ";
  return s;
}

int main(int argc, char** argv)
{
  vf::Args a{argc, argv};
  int const depth = static_cast<int>(a.geti("--depth", 5));
  long const shard = a.geti("--shard", 0), nshards = a.geti("--nshards", 1);
  g_worker = Backend::acquire_manual_backend_worker();
  BackendOptions bo;
  bo.error_notifier = [](std::string const& s) { g_notes.push_back(s); };
  g_worker->init(bo);

  if (char const* rp = a.get("--replay"))
  {
    std::vector<int> h;
    std::istringstream is(rp);
    std::string t;
    while (is >> t)
      for (size_t i = 0; i < OPS.size(); ++i)
        if (OPS[i] == t) h.push_back(static_cast<int>(i));
    Result r = run_history(h);
    if (!r.ok)
      vf::J("viol").s("kind", "backtrace-e2e-mismatch").s("case", hist_str(h, static_cast<size_t>(r.step))).s("got", join(r.got)).s("want", join(r.want)).b("ring", false).emit();
    vf::done();
    return 0;
  }

  unsigned long long histories = 0, steps = 0, viols = 0, counter = 0;
  std::set<std::string> bad;
  std::set<std::string> reported;
  size_t samples = 0;
  std::vector<size_t> idx(static_cast<size_t>(depth), 0);
  while (true)
  {
    // shard on the first two ops so that prefixes stay within one shard
    unsigned long long const first2 = idx[0] * OPS.size() + (depth > 1 ? idx[1] : 0);
    if (static_cast<long>(first2 % static_cast<unsigned long long>(nshards)) == shard)
    {
      std::vector<int> h;
      for (size_t i : idx) h.push_back(static_cast<int>(i));
      bool skip = false;
      std::string pfx;
      for (size_t i = 0; i < h.size(); ++i)
      {
        pfx += std::to_string(h[i]) + ",";
        if (bad.count(pfx)) skip = true;
      }
      if (!skip)
      {
        Result r = run_history(h);
        ++histories;
        steps += h.size();
        if (!r.ok)
        {
          ++viols;
          std::string p2;
          for (int i = 0; i <= r.step; ++i) p2 += std::to_string(h[static_cast<size_t>(i)]) + ",";
          bad.insert(p2);
          if (reported.size() < 12 && reported.insert(p2).second)
            vf::J("viol").s("kind", "backtrace-e2e-mismatch").s("case", hist_str(h, static_cast<size_t>(r.step))).s("got", join(r.got)).s("want", join(r.want)).b("ring", false).emit();
        }
        else if (samples < 3 && (histories % 7919) == 11)
        {
          vf::J("sample").s("history", hist_str(h, h.size())).emit();
          ++samples;
        }
      }
    }
    ++counter;
    int p = depth - 1;
    while (p >= 0 && ++idx[static_cast<size_t>(p)] == OPS.size())
    {
      idx[static_cast<size_t>(p)] = 0;
      --p;
    }
    if (p < 0) break;
  }
  vf::J("stat").u("e2e_histories", histories).u("e2e_steps", steps).u("executions", histories).u("transitions", steps)
    .u("traces_validated_against_impl", histories).u("e2e_violating_histories", viols).emit();
  vf::done();
  return 0;
}
