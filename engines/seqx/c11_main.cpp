// C11: after preallocate() + one warm-up call, every statement over the listed argument types (singles, pairs inside
// the sub-menu, 0..12 C strings, every macro family) must perform zero heap / mmap allocations on the calling thread;
// user formatters of deferred-format types must run on the backend thread, direct-format ones on the caller.
//
// The backend runs on its own real thread (ManualBackendWorker polled on request), so "caller" and "backend" are
// different threads.  Allocation monitor: interposed malloc family (via __libc_*), replaced operator new, interposed
// mmap; counters are thread local.  The 13-C-string statement is the control that MUST allocate (monitor sanity).
//
// compile-time: -DVF_QUEUE=0..3 (UnboundedBlocking, UnboundedDropping, BoundedBlocking, BoundedDropping), VF_SHARD/VF_NSHARDS
#include "c04_menu.h"

#include "vf_out.h"

#include <atomic>
#include <set>
#include <sys/mman.h>
#include <thread>

#ifndef VF_SHARD
  #define VF_SHARD 0
#endif
#ifndef VF_NSHARDS
  #define VF_NSHARDS 1
#endif
#ifndef VF_QUEUE
  #define VF_QUEUE 0
#endif

using namespace quill;

// ---- allocation monitor ---------------------------------------------------------------------------
extern "C"
{
  void* __libc_malloc(size_t);
  void* __libc_calloc(size_t, size_t);
  void* __libc_realloc(void*, size_t);
  void* __libc_memalign(size_t, size_t);
  void __libc_free(void*);
}
static thread_local unsigned long long tl_allocs = 0;
static thread_local unsigned long long tl_mmaps = 0;
extern "C"
{
  void* malloc(size_t n)
  {
    ++tl_allocs;
    return __libc_malloc(n);
  }
  void* calloc(size_t a, size_t b)
  {
    ++tl_allocs;
    return __libc_calloc(a, b);
  }
  void* realloc(void* p, size_t n)
  {
    ++tl_allocs;
    return __libc_realloc(p, n);
  }
  void* memalign(size_t a, size_t n)
  {
    ++tl_allocs;
    return __libc_memalign(a, n);
  }
  void* aligned_alloc(size_t a, size_t n)
  {
    ++tl_allocs;
    return __libc_memalign(a, n);
  }
  int posix_memalign(void** out, size_t a, size_t n)
  {
    ++tl_allocs;
    *out = __libc_memalign(a, n);
    return *out ? 0 : 12;
  }
  void free(void* p) { __libc_free(p); }
  void* mmap(void* addr, size_t len, int prot, int flags, int fd, off_t off)
  {
    ++tl_mmaps;
    return reinterpret_cast<void*>(syscall(SYS_mmap, addr, len, prot, flags, fd, off));
  }
}
void* operator new(size_t n)
{
  void* p = malloc(n ? n : 1);
  if (!p) throw std::bad_alloc{};
  return p;
}
void* operator new[](size_t n) { return operator new(n); }
void operator delete(void* p) noexcept { free(p); }
void operator delete[](void* p) noexcept { free(p); }
void operator delete(void* p, size_t) noexcept { free(p); }
void operator delete[](void* p, size_t) noexcept { free(p); }

// ---------------------------------------------------------------------------------------------------

thread_local int g_fmt_calls_deferred_pod, g_fmt_calls_deferred_nt, g_fmt_calls_direct;
int g_last_fmt_tid_deferred_pod, g_last_fmt_tid_deferred_nt, g_last_fmt_tid_direct;

struct VfFrontendOptions
{
#if VF_QUEUE == 0
  static constexpr QueueType queue_type = QueueType::UnboundedBlocking;
  static constexpr char const* qname = "UnboundedBlocking";
#elif VF_QUEUE == 1
  static constexpr QueueType queue_type = QueueType::UnboundedDropping;
  static constexpr char const* qname = "UnboundedDropping";
#elif VF_QUEUE == 2
  static constexpr QueueType queue_type = QueueType::BoundedBlocking;
  static constexpr char const* qname = "BoundedBlocking";
#else
  static constexpr QueueType queue_type = QueueType::BoundedDropping;
  static constexpr char const* qname = "BoundedDropping";
#endif
  static constexpr size_t initial_queue_capacity = 16 * 1024; // small: positions wrap many times during the run
  static constexpr uint32_t blocking_queue_retry_interval_ns = 800;
  static constexpr size_t unbounded_queue_max_capacity = 2ull * 1024 * 1024 * 1024;
  static constexpr HugePagesPolicy huge_pages_policy = HugePagesPolicy::Never;
};
using VfFrontend = FrontendImpl<VfFrontendOptions>;
using VfLogger = LoggerImpl<VfFrontendOptions>;

struct CountSink : public Sink
{
  std::atomic<unsigned long long> n{0};
  void write_log(MacroMetadata const*, uint64_t, std::string_view, std::string_view, std::string const&, std::string_view,
                 LogLevel, std::string_view, std::string_view, std::vector<std::pair<std::string, std::string>> const*,
                 std::string_view, std::string_view) override
  {
    ++n;
  }
  void flush_sink() override {}
};

static VfLogger* g_logger;
static std::shared_ptr<CountSink> g_sink;
static std::atomic<int> g_req{0}, g_ack{0};
static std::atomic<bool> g_stop{false};
static int g_backend_tid = 0, g_caller_tid = 0;
static unsigned long long g_eval = 0, g_viol = 0, g_tuples = 0;
static std::set<uint64_t> g_distinct;
static std::set<std::string> g_sigs;

static void backend_main()
{
  ManualBackendWorker* w = Backend::acquire_manual_backend_worker();
  BackendOptions bo;
  bo.error_notifier = [](std::string const&) {};
  w->init(bo);
  g_backend_tid = vf_tid();
  g_ack.store(-1);
  int served = 0;
  while (!g_stop.load())
  {
    if (g_req.load() != served)
    {
      w->poll();
      w->poll_one();
      served = g_req.load();
      g_ack.store(served);
    }
    else
      std::this_thread::yield();
  }
}

static void drain()
{
  int r = g_req.fetch_add(1) + 1;
  while (g_ack.load() != r) std::this_thread::yield();
}

static void report(char const* kind, std::string const& what, unsigned long long allocs, unsigned long long mmaps)
{
  ++g_viol;
  std::string sig = std::string(kind) + "|" + what.substr(0, what.find(" value"));
  if (!g_sigs.insert(sig).second || g_sigs.size() > 40) return;
  vf::J("viol").s("kind", kind).s("case", what).s("queue", VfFrontendOptions::qname).u("heap_allocations_on_caller", allocs).u("mmaps_on_caller", mmaps).emit();
}

template <typename F>
static void measured(std::string const& what, bool expect_zero, F&& f)
{
  unsigned long long const a0 = tl_allocs, m0 = tl_mmaps;
  f();
  unsigned long long const da = tl_allocs - a0, dm = tl_mmaps - m0;
  ++g_eval;
  g_distinct.insert(vf::fnv(what));
  if (expect_zero && (da != 0 || dm != 0)) report("allocation-on-caller", what, da, dm);
}

template <typename A>
static void single_test()
{
  static constexpr MacroMetadata md{"c11.cpp:1", "single", "[{}]", nullptr, LogLevel::Info, MacroMetadata::Event::Log};
  Backing back;
  std::vector<A> va = Alpha<A>::values(back);
  ++g_tuples;
  for (size_t ia = 0; ia < va.size(); ++ia)
  {
    A a = va[ia];
    int const before_pod = g_last_fmt_tid_deferred_pod, before_nt = g_last_fmt_tid_deferred_nt;
    (void)before_pod;
    (void)before_nt;
    g_last_fmt_tid_deferred_pod = g_last_fmt_tid_deferred_nt = g_last_fmt_tid_direct = 0;
    measured(std::string(Alpha<A>::name()) + " value#" + std::to_string(ia), Alpha<A>::flags().c11_eligible && !Alpha<A>::flags().direct,
             [&] { g_logger->template log_statement<false, false>(LogLevel::None, &md, a); });
    // formatter thread: nothing deferred may have been formatted on the caller by now ...
    if (g_last_fmt_tid_deferred_pod == g_caller_tid || g_last_fmt_tid_deferred_nt == g_caller_tid)
      report("deferred-formatter-ran-on-caller", Alpha<A>::name(), 0, 0);
    if constexpr (std::is_same_v<A, Direct>)
      if (g_last_fmt_tid_direct != g_caller_tid) report("direct-formatter-not-on-caller", Alpha<A>::name(), 0, 0);
    drain();
    // ... and after the backend processed it, the deferred formatter ran there
    if constexpr (std::is_same_v<A, DefPod>)
      if (g_last_fmt_tid_deferred_pod != g_backend_tid) report("deferred-formatter-not-on-backend", Alpha<A>::name(), 0, 0);
    if constexpr (std::is_same_v<A, DefNt>)
      if (g_last_fmt_tid_deferred_nt != g_backend_tid) report("deferred-formatter-not-on-backend", Alpha<A>::name(), 0, 0);
  }
}

template <typename A, typename B>
static void pair_test()
{
  static constexpr MacroMetadata md{"c11.cpp:2", "pair", "{}|{}", nullptr, LogLevel::Info, MacroMetadata::Event::Log};
  Backing back;
  std::vector<A> va = Alpha<A>::values(back);
  std::vector<B> vb = Alpha<B>::values(back);
  ++g_tuples;
  bool const eligible = Alpha<A>::flags().c11_eligible && Alpha<B>::flags().c11_eligible && !Alpha<A>::flags().direct && !Alpha<B>::flags().direct;
  std::string const types = std::string(Alpha<A>::name()) + "," + Alpha<B>::name();
  for (size_t ia = 0; ia < va.size(); ++ia)
    for (size_t ib = 0; ib < vb.size(); ++ib)
    {
      A a = va[ia];
      B b = vb[ib];
      g_last_fmt_tid_deferred_pod = g_last_fmt_tid_deferred_nt = 0;
      measured(types + " values#" + std::to_string(ia) + "," + std::to_string(ib), eligible,
               [&] { g_logger->template log_statement<false, false>(LogLevel::None, &md, a, b); });
      if (g_last_fmt_tid_deferred_pod == g_caller_tid || g_last_fmt_tid_deferred_nt == g_caller_tid)
        report("deferred-formatter-ran-on-caller", types, 0, 0);
      drain();
    }
}

static constexpr bool in_pair_menu(int i)
{
  constexpr int sub[] = {1, 6, 10, 13, 15, 16, 17, 18, 19, 20, 22, 25, 26, 35, 40, 43, 45, 47, 49, 53, 54, 55};
  for (int x : sub)
    if (x == i) return true;
  return false;
}
template <int I, int J>
static void maybe_pair()
{
  if constexpr (in_pair_menu(I) && in_pair_menu(J)) pair_test<typename TypeAt<I>::type, typename TypeAt<J>::type>();
}
template <int I, int... Js>
static void row(std::integer_sequence<int, Js...>)
{
  single_test<typename TypeAt<I>::type>();
  (maybe_pair<I, Js>(), ...);
}
template <int... Is>
static void rows(std::integer_sequence<int, Is...>)
{
  (([]
    {
      if constexpr ((Is % VF_NSHARDS) == VF_SHARD) row<Is>(std::make_integer_sequence<int, MENU_SIZE>{});
    }()),
   ...);
}

static void cstring_counts()
{
  Backing back;
  char const* p[13];
  for (int i = 0; i < 13; ++i) p[i] = back.put(std::string(static_cast<size_t>(i * 3), static_cast<char>('a' + i)) + "|");
#define VF_N(N, FMT, ...)                                                                                         \
  {                                                                                                               \
    static constexpr MacroMetadata md{"c11.cpp:3", "cstr", FMT, nullptr, LogLevel::Info, MacroMetadata::Event::Log}; \
    measured(std::to_string(N) + " x char const*", N <= 12, [&] { g_logger->template log_statement<false, false>(LogLevel::None, &md, ##__VA_ARGS__); }); \
    drain();                                                                                                      \
  }
  VF_N(0, "none")
  VF_N(1, "{}", p[0])
  VF_N(2, "{}{}", p[0], p[1])
  VF_N(3, "{}{}{}", p[0], p[1], p[2])
  VF_N(4, "{}{}{}{}", p[0], p[1], p[2], p[3])
  VF_N(6, "{}{}{}{}{}{}", p[0], p[1], p[2], p[3], p[4], p[5])
  VF_N(8, "{}{}{}{}{}{}{}{}", p[0], p[1], p[2], p[3], p[4], p[5], p[6], p[7])
  VF_N(11, "{}{}{}{}{}{}{}{}{}{}{}", p[0], p[1], p[2], p[3], p[4], p[5], p[6], p[7], p[8], p[9], p[10])
  VF_N(12, "{}{}{}{}{}{}{}{}{}{}{}{}", p[0], p[1], p[2], p[3], p[4], p[5], p[6], p[7], p[8], p[9], p[10], p[11])
  {
    // control: the 13th variable-length argument exceeds the inline capacity of the size cache and MUST allocate;
    // if the monitor does not see it, the harness is blind and says so
    static constexpr MacroMetadata md{"c11.cpp:4", "cstr13", "{}{}{}{}{}{}{}{}{}{}{}{}{}", nullptr, LogLevel::Info, MacroMetadata::Event::Log};
    unsigned long long const a0 = tl_allocs;
    g_logger->template log_statement<false, false>(LogLevel::None, &md, p[0], p[1], p[2], p[3], p[4], p[5], p[6], p[7], p[8], p[9], p[10], p[11], p[12]);
    if (tl_allocs == a0) vf::J("error").s("msg", "allocation monitor did not observe the control allocation (13 C strings)").emit();
    drain();
  }
  // std::string / std::string_view values do not use the size cache: any number of them must stay allocation free
  {
    static constexpr MacroMetadata md{"c11.cpp:6", "str13", "{}{}{}{}{}{}{}{}{}{}{}{}{}{}", nullptr, LogLevel::Info, MacroMetadata::Event::Log};
    std::string s[14];
    for (int i = 0; i < 14; ++i) s[i] = std::string(static_cast<size_t>(i + 20), static_cast<char>('A' + i));
    std::string_view v3{s[3]}, v7{s[7]};
    measured("14 x std::string / string_view (non-SSO)", true,
             [&] { g_logger->template log_statement<false, false>(LogLevel::None, &md, s[0], s[1], s[2], v3, s[4], s[5], s[6], v7, s[8], s[9], s[10], s[11], s[12], s[13]); });
    drain();
    static constexpr MacroMetadata md2{"c11.cpp:7", "vec40", "{} {} {}", nullptr, LogLevel::Info, MacroMetadata::Event::Log};
    std::vector<std::string> vs;
    std::vector<std::string_view> vv;
    for (int i = 0; i < 40; ++i) vs.push_back(std::string(static_cast<size_t>(17 + i % 5), 'e'));
    for (auto const& x : vs) vv.emplace_back(x);
    std::array<std::string, 16> as;
    for (auto& x : as) x = std::string(30, 'a');
    measured("vector<string>(40), vector<string_view>(40), array<string,16>", true,
             [&] { g_logger->template log_statement<false, false>(LogLevel::None, &md2, vs, vv, as); });
    drain();
  }
  // string lengths up to what fits the queue buffer
  {
    static constexpr MacroMetadata md{"c11.cpp:5", "len", "{}", nullptr, LogLevel::Info, MacroMetadata::Event::Log};
    for (size_t len : {0u, 1u, 15u, 16u, 255u, 4095u, 8000u, 12000u})
    {
      std::string s(len, 's');
      std::string_view sv{s};
      char const* cs = s.c_str();
      measured("std::string len " + std::to_string(len), true, [&] { g_logger->template log_statement<false, false>(LogLevel::None, &md, s); });
      drain();
      measured("string_view len " + std::to_string(len), true, [&] { g_logger->template log_statement<false, false>(LogLevel::None, &md, sv); });
      drain();
      measured("char const* len " + std::to_string(len), true, [&] { g_logger->template log_statement<false, false>(LogLevel::None, &md, cs); });
      drain();
    }
  }
}

static void macro_families()
{
  int x = 7;
  std::string s = "str";
  char const* cs = "cstr";
  double d = 2.5;
  g_logger->init_backtrace(4);
  drain();
  // one pass warms nothing up: every macro is measured on its first execution
  for (int round = 0; round < 3; ++round)
  {
    measured("LOG_INFO", true, [&] { LOG_INFO(g_logger, "m {} {} {}", x, s, cs); });
    measured("LOG_ERROR", true, [&] { LOG_ERROR(g_logger, "m {} {}", d, s); });
    measured("LOGV_INFO", true, [&] { LOGV_INFO(g_logger, "v", x, s, d); });
    measured("LOGJ_INFO", true, [&] { LOGJ_INFO(g_logger, "j", x, s, d); });
    measured("LOG_INFO_TAGS", true, [&] { LOG_INFO_TAGS(g_logger, TAGS("t1", "t2"), "m {} {}", x, s); });
    measured("LOG_INFO_LIMIT", true, [&] { LOG_INFO_LIMIT(std::chrono::nanoseconds{1}, g_logger, "m {} {}", x, s); });
    measured("LOG_INFO_LIMIT_EVERY_N", true, [&] { LOG_INFO_LIMIT_EVERY_N(2, g_logger, "m {} {}", x, s); });
    measured("LOG_DYNAMIC", true, [&] { LOG_DYNAMIC(g_logger, LogLevel::Warning, "m {} {}", x, s); });
    measured("LOG_BACKTRACE", true, [&] { LOG_BACKTRACE(g_logger, "m {} {}", x, s); });
    measured("LOG_RUNTIME_METADATA", true, [&] { LOG_RUNTIME_METADATA(g_logger, LogLevel::Info, "file.cpp", 12, "fn", "m {} {}", x, s); });
    measured("LOG_TRACE_L3 (below logger level)", true, [&] { LOG_TRACE_L3(g_logger, "m {} {}", x, s); });
    drain();
  }
}

// "a log statement whose encoded size fits in the thread's current queue buffer performs no allocation": sizes from exactly
// the free space of the (drained) buffer downwards, issued while the producer's cached reader position is stale (it last
// looked before the backend consumed a large statement), so that the decision is taken by the re-check after reloading it
static void fit_sweep()
{
  static constexpr MacroMetadata md{"c11.cpp:9", "fit", "{}", nullptr, LogLevel::Info, MacroMetadata::Event::Log};
  auto* ctx = detail::get_local_thread_context<VfFrontendOptions>();
  auto writer_pos = [ctx]() -> size_t
  {
    if constexpr (VfFrontendOptions::queue_type == QueueType::UnboundedBlocking || VfFrontendOptions::queue_type == QueueType::UnboundedDropping)
      return static_cast<size_t>(ctx->get_spsc_queue_union().unbounded_spsc_queue._producer->bounded_queue._writer_pos);
    else
      return static_cast<size_t>(ctx->get_spsc_queue_union().bounded_spsc_queue._writer_pos);
  };
  size_t const cap = VfFrontend::get_thread_local_queue_capacity();
  std::string const big(cap + 16, 'x');
  drain();
  size_t const w0 = writer_pos();
  g_logger->template log_statement<false, false>(LogLevel::None, &md, std::string_view{big.data(), 100});
  size_t const overhead = writer_pos() - w0 - 100; // encoded size of a string_view statement = overhead + length
  drain();
  for (size_t delta : {0u, 1u, 2u, 3u, 4u, 7u, 8u, 9u, 63u, 64u, 100u})
  {
    // a filler of 3/4 of the capacity, consumed by the backend: the producer still believes it is there
    g_logger->template log_statement<false, false>(LogLevel::None, &md, std::string_view{big.data(), cap * 3 / 4 - overhead});
    drain();
    size_t const n = cap - delta;
    bool ok = false;
    measured("statement of exactly capacity - " + std::to_string(delta) + " bytes on the drained queue (stale reader cache)", true,
             [&] { ok = g_logger->template log_statement<false, false>(LogLevel::None, &md, std::string_view{big.data(), n - overhead}); });
    if (!ok) report("fitting-statement-refused", "capacity - " + std::to_string(delta), 0, 0);
    if (VfFrontend::get_thread_local_queue_capacity() != cap)
      report("queue-grown-for-a-fitting-statement", "capacity - " + std::to_string(delta) + ": " + std::to_string(cap) + " -> " + std::to_string(VfFrontend::get_thread_local_queue_capacity()), 0, 0);
    drain();
  }
}

int main()
{
  g_caller_tid = vf_tid();
  std::thread backend(backend_main);
  while (g_ack.load() != -1) std::this_thread::yield();
  g_ack.store(0);
  g_sink = std::make_shared<CountSink>();
  g_logger = VfFrontend::create_or_get_logger("L", g_sink, PatternFormatterOptions{"%(message)"});
  VfFrontend::preallocate();
  LOG_INFO(g_logger, "warm-up {}", 1); // "after a thread's first log call"
  drain();

  rows(std::make_integer_sequence<int, MENU_SIZE>{});
  if (VF_SHARD == 0)
  {
    cstring_counts();
    macro_families();
    fit_sweep();
  }
  g_stop.store(true);
  backend.join();
  vf::J("stat").u("evaluations", g_eval).u("type_tuples", g_tuples).u("distinct_nontrivial", g_distinct.size()).u("mismatches_total", g_viol)
    .u("statements_written_by_backend", g_sink->n.load()).emit();
  vf::J("sample").s("queue", VfFrontendOptions::qname).s("example", "pair_test<std::string, VecS>: zero allocations on caller for every value pair").emit();
  vf::done();
  _exit(0);
}
