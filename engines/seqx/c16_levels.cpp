// C16 (a) full product statement level x logger level x per-sink threshold x per-sink filter set x override pattern,
// (b) reuse of backend event slots by statements of different kinds (dynamic/static level, named/plain args).
// Deterministic, in-process (ManualBackendWorker); every statement carries a side-effect counter argument.
#include "quill/Backend.h"
#include "quill/Frontend.h"
#include "quill/LogMacros.h"
#include "quill/Logger.h"
#include "quill/UserClockSource.h"
#include "quill/backend/ManualBackendWorker.h"
#include "quill/filters/Filter.h"
#include "quill/sinks/Sink.h"

#include "vf_out.h"

#include <ctime>
#include <set>
#include <string>
#include <vector>

using namespace quill;

struct Rec
{
  int level;
  std::string msg, statement;
};
struct CapSink : public Sink
{
  using Sink::Sink;
  std::vector<Rec> got;
  void write_log(MacroMetadata const*, uint64_t, std::string_view, std::string_view, std::string const&, std::string_view,
                 LogLevel level, std::string_view, std::string_view, std::vector<std::pair<std::string, std::string>> const*,
                 std::string_view msg, std::string_view st) override
  {
    got.push_back(Rec{static_cast<int>(level), std::string(msg), std::string(st)});
  }
  void flush_sink() override {}
};
struct RejectOdd : public Filter
{
  RejectOdd() : Filter("odd") {}
  bool filter(MacroMetadata const*, uint64_t, std::string_view, std::string_view, std::string_view, LogLevel, std::string_view m,
              std::string_view) noexcept override
  {
    return (atoi(std::string(m).c_str()) % 2) == 0;
  }
};
struct RejectAll : public Filter
{
  RejectAll() : Filter("all") {}
  bool filter(MacroMetadata const*, uint64_t, std::string_view, std::string_view, std::string_view, LogLevel, std::string_view,
              std::string_view) noexcept override
  {
    return false;
  }
};
struct FixedClock : public UserClockSource
{
  mutable uint64_t t{1718451898000000000ull};
  uint64_t now() const override { return ++t; }
};

static char const* const LEVEL_NAME[9] = {"TRACE_L3", "TRACE_L2", "TRACE_L1", "DEBUG", "INFO", "NOTICE", "WARNING", "ERROR", "CRITICAL"};
static char const* const LEVEL_CODE[9] = {"T3", "T2", "T1", "D", "I", "N", "W", "E", "C"};

static ManualBackendWorker* g_worker;
static FixedClock g_clock;
static unsigned long long g_eval = 0, g_viol = 0;
static std::set<uint64_t> g_distinct;
static std::set<std::string> g_sigs;
static int g_counter = 0;
static int next_counter() { return ++g_counter; }

static void report(std::string const& kind, std::string const& cs, std::string const& detail)
{
  ++g_viol;
  if (!g_sigs.insert(kind).second && g_sigs.size() > 0 && g_viol > 12) return;
  vf::J("viol").s("kind", kind).s("case", cs).s("detail", detail).emit();
}

// kind: 0 static macro, 1 LOG_DYNAMIC, 2 LOG_RUNTIME_METADATA, 3 LOGV_ family (value macros), 4 LOG_*_TAGS family
static void issue(Logger* l, int kind, int level)
{
  LogLevel const ll = static_cast<LogLevel>(level);
  if (kind == 3)
  {
    switch (level)
    {
    case 0: LOGV_TRACE_L3(l, "v", next_counter()); break;
    case 1: LOGV_TRACE_L2(l, "v", next_counter()); break;
    case 2: LOGV_TRACE_L1(l, "v", next_counter()); break;
    case 3: LOGV_DEBUG(l, "v", next_counter()); break;
    case 4: LOGV_INFO(l, "v", next_counter()); break;
    case 5: LOGV_NOTICE(l, "v", next_counter()); break;
    case 6: LOGV_WARNING(l, "v", next_counter()); break;
    case 7: LOGV_ERROR(l, "v", next_counter()); break;
    default: LOGV_CRITICAL(l, "v", next_counter()); break;
    }
    return;
  }
  if (kind == 4)
  {
    switch (level)
    {
    case 0: LOG_TRACE_L3_TAGS(l, TAGS("tg"), "{} tag", next_counter()); break;
    case 1: LOG_TRACE_L2_TAGS(l, TAGS("tg"), "{} tag", next_counter()); break;
    case 2: LOG_TRACE_L1_TAGS(l, TAGS("tg"), "{} tag", next_counter()); break;
    case 3: LOG_DEBUG_TAGS(l, TAGS("tg"), "{} tag", next_counter()); break;
    case 4: LOG_INFO_TAGS(l, TAGS("tg"), "{} tag", next_counter()); break;
    case 5: LOG_NOTICE_TAGS(l, TAGS("tg"), "{} tag", next_counter()); break;
    case 6: LOG_WARNING_TAGS(l, TAGS("tg"), "{} tag", next_counter()); break;
    case 7: LOG_ERROR_TAGS(l, TAGS("tg"), "{} tag", next_counter()); break;
    default: LOG_CRITICAL_TAGS(l, TAGS("tg"), "{} tag", next_counter()); break;
    }
    return;
  }
  if (kind == 1)
  {
    LOG_DYNAMIC(l, ll, "{} dyn", next_counter());
    return;
  }
  if (kind == 2)
  {
    LOG_RUNTIME_METADATA(l, ll, "rt.cpp", 5, "rtfn", "{} rt", next_counter());
    return;
  }
  switch (level)
  {
  case 0: LOG_TRACE_L3(l, "{} st", next_counter()); break;
  case 1: LOG_TRACE_L2(l, "{} st", next_counter()); break;
  case 2: LOG_TRACE_L1(l, "{} st", next_counter()); break;
  case 3: LOG_DEBUG(l, "{} st", next_counter()); break;
  case 4: LOG_INFO(l, "{} st", next_counter()); break;
  case 5: LOG_NOTICE(l, "{} st", next_counter()); break;
  case 6: LOG_WARNING(l, "{} st", next_counter()); break;
  case 7: LOG_ERROR(l, "{} st", next_counter()); break;
  default: LOG_CRITICAL(l, "{} st", next_counter()); break;
  }
}

static void product(long shard, long nshards)
{
  int const THR[3] = {0, 6, 8}; // TraceL3, Warning, Critical
  int setup_no = 0;
  unsigned long long counter = 0;
  for (int t1 = 0; t1 < 3; ++t1)
    for (int f1 = 0; f1 < 4; ++f1)
      for (int t2 = 0; t2 < 3; ++t2)
        for (int f2 = 0; f2 < 4; ++f2)
          for (int ovr = 0; ovr < 3; ++ovr) // 0 no override, 1 override on the second sink, 2 override on the first sink
          {
            if (static_cast<long>(counter++ % static_cast<unsigned long long>(nshards)) != shard) continue;
            auto s1 = ovr == 2 ? std::make_shared<CapSink>(PatternFormatterOptions{"OVR %(log_level) %(message)"}) : std::make_shared<CapSink>();
            auto s2 = ovr == 1 ? std::make_shared<CapSink>(PatternFormatterOptions{"OVR %(log_level) %(message)"}) : std::make_shared<CapSink>();
            s1->set_log_level_filter(static_cast<LogLevel>(THR[t1]));
            s2->set_log_level_filter(static_cast<LogLevel>(THR[t2]));
            if (f1 & 1) s1->add_filter(std::make_unique<RejectOdd>());
            if (f1 & 2) s1->add_filter(std::make_unique<RejectAll>());
            if (f2 & 1) s2->add_filter(std::make_unique<RejectOdd>());
            if (f2 & 2) s2->add_filter(std::make_unique<RejectAll>());
            Logger* l = Frontend::create_or_get_logger("P" + std::to_string(shard) + "_" + std::to_string(setup_no++), {s1, s2},
                                                       PatternFormatterOptions{"%(log_level_short_code)|%(message)"}, ClockSourceType::User, &g_clock);
            for (int ll = 0; ll <= 9; ++ll) // 9 = LogLevel::None
            {
              l->set_log_level(ll == 9 ? LogLevel::None : static_cast<LogLevel>(ll));
              // the value-macro and tags-macro families are enumerated for the configurations without a filter on the first sink
              for (int kind = 0; kind < (f1 == 0 ? 5 : 3); ++kind)
                for (int level = 0; level < 9; ++level)
                {
                  s1->got.clear();
                  s2->got.clear();
                  int const before = g_counter;
                  issue(l, kind, level);
                  bool const evaluated = g_counter != before;
                  for (int i = 0; i < 3; ++i) g_worker->poll_one();
                  bool const want_enq = ll != 9 && level >= ll;
                  std::string cs = "kind=" + std::to_string(kind) + " level=" + LEVEL_NAME[level] + " logger_level=" + (ll == 9 ? "NONE" : LEVEL_NAME[ll]) +
                    " s1(thr=" + LEVEL_NAME[THR[t1]] + ",filters=" + std::to_string(f1) + ") s2(thr=" + LEVEL_NAME[THR[t2]] + ",filters=" + std::to_string(f2) +
                    ",override=" + std::to_string(ovr) + ")";
                  ++g_eval;
                  g_distinct.insert(vf::fnv(cs));
                  if (evaluated != want_enq)
                    report("argument-evaluation", cs, evaluated ? "arguments evaluated although the level is below the logger's" : "arguments not evaluated");
                  int const n = g_counter;
                  bool const odd = kind != 3 && (n % 2) != 0; // (RejectOdd reads the leading number: none in a value-macro message)
                  bool const w1 = want_enq && level >= THR[t1] && !((f1 & 1) && odd) && !(f1 & 2);
                  bool const w2 = want_enq && level >= THR[t2] && !((f2 & 1) && odd) && !(f2 & 2);
                  // RejectOdd looks at the leading number of the message: the value macros put it at the end
                  std::string const msg = kind == 3 ? "v [next_counter(): " + std::to_string(n) + "]"
                                                    : std::to_string(n) + (kind == 0 ? " st" : kind == 1 ? " dyn" : kind == 2 ? " rt" : " tag");
                  auto chk = [&](CapSink& s, bool want, int which, std::string const& line)
                  {
                    if (s.got.size() != (want ? 1u : 0u))
                    {
                      report("sink-delivery", cs, "sink " + std::to_string(which) + " received " + std::to_string(s.got.size()) + " statement(s), expected " + (want ? "1" : "0"));
                      return;
                    }
                    if (!want) return;
                    if (s.got[0].level != level) report("reported-level", cs, "sink " + std::to_string(which) + " reported level " + std::to_string(s.got[0].level));
                    if (s.got[0].msg != msg) report("message", cs, "sink " + std::to_string(which) + " message '" + s.got[0].msg + "' expected '" + msg + "'");
                    if (s.got[0].statement != line) report("line-pattern", cs, "sink " + std::to_string(which) + " line '" + s.got[0].statement + "' expected '" + line + "'");
                  };
                  std::string const plain_line = std::string(LEVEL_CODE[level]) + "|" + msg + "\n";
                  std::string const ovr_line = "OVR " + std::string(LEVEL_NAME[level]) + " " + msg + "\n";
                  chk(*s1, w1, 1, ovr == 2 ? ovr_line : plain_line);
                  chk(*s2, w2, 2, ovr == 1 ? ovr_line : plain_line);
                }
            }
            Frontend::remove_logger(l);
            g_worker->poll_one();
            g_worker->poll_one();
          }
}

// (b) slot reuse: one transit slot, statements of alternating kinds processed one at a time
static void slot_reuse()
{
  auto s1 = std::make_shared<CapSink>();
  Logger* l = Frontend::create_or_get_logger("slots", {s1}, PatternFormatterOptions{"%(log_level)|%(message)|%(named_args)"}, ClockSourceType::User, &g_clock);
  l->set_log_level(LogLevel::TraceL3);
  struct Step
  {
    int what; // 0 static info, 1 dynamic error, 2 named info, 3 dynamic debug, 4 runtime-metadata warning, 5 static critical named
    char const* want;
  };
  std::vector<Step> const steps = {{1, "ERROR|d|"},   {0, "INFO|s|"},      {2, "INFO|n 7|k: 7"}, {0, "INFO|s|"},           {3, "DEBUG|d|"},
                                   {2, "INFO|n 7|k: 7"}, {4, "WARNING|r|"}, {0, "INFO|s|"},       {5, "CRITICAL|c 1 2|a: 1, b: 2"}, {1, "ERROR|d|"},
                                   {4, "WARNING|r|"},  {2, "INFO|n 7|k: 7"}, {3, "DEBUG|d|"},      {0, "INFO|s|"}};
  // all orders of two consecutive kinds are produced by walking every ordered pair
  std::vector<Step> walk = steps;
  Step const kinds[6] = {{0, "INFO|s|"}, {1, "ERROR|d|"}, {2, "INFO|n 7|k: 7"}, {3, "DEBUG|d|"}, {4, "WARNING|r|"}, {5, "CRITICAL|c 1 2|a: 1, b: 2"}};
  for (int a = 0; a < 6; ++a)
    for (int b = 0; b < 6; ++b)
    {
      walk.push_back(kinds[a]);
      walk.push_back(kinds[b]);
    }
  // issue in bursts of 3 so that slots are reused both within a read pass and across passes
  size_t i = 0;
  std::vector<std::string> want;
  while (i < walk.size())
  {
    for (int k = 0; k < 3 && i < walk.size(); ++k, ++i)
    {
      switch (walk[i].what)
      {
      case 0: LOG_INFO(l, "s"); break;
      case 1: LOG_DYNAMIC(l, LogLevel::Error, "d"); break;
      case 2: LOG_INFO(l, "n {k}", 7); break;
      case 3: LOG_DYNAMIC(l, LogLevel::Debug, "d"); break;
      case 4: LOG_RUNTIME_METADATA(l, LogLevel::Warning, "f.cpp", 1, "fn", "r"); break;
      default: LOG_CRITICAL(l, "c {a} {b}", 1, 2); break;
      }
      want.push_back(std::string(walk[i].want) + "\n");
    }
    for (int p = 0; p < 8; ++p) g_worker->poll_one();
  }
  ++g_eval;
  std::vector<std::string> got;
  for (auto const& r : s1->got) got.push_back(r.statement);
  if (got != want)
  {
    size_t k = 0;
    while (k < got.size() && k < want.size() && got[k] == want[k]) ++k;
    report("slot-reuse", "statement #" + std::to_string(k) + " of the alternating-kinds walk",
           "got '" + (k < got.size() ? got[k] : std::string("<missing>")) + "' expected '" + (k < want.size() ? want[k] : std::string("<none>")) + "'");
  }
  g_distinct.insert(vf::fnv("slot-reuse"));
}

// (d) formatter sharing: the backend lets a logger without a formatter adopt the formatter of another logger whose options
// compare equal. Every ordered pair of option sets that differ in exactly one field (or in none) x which of the two loggers
// is seen first by the backend: each sink must get the line rendered with ITS logger's options.
struct OptV
{
  char const* pattern;
  char const* ts;
  Timezone tz;
  bool multi;
};
static std::string ref_time(char const* ts, Timezone tz, time_t t)
{
  tm ti{};
  if (tz == Timezone::GmtTime)
    gmtime_r(&t, &ti);
  else
    localtime_r(&t, &ti);
  char b[64];
  strftime(b, sizeof b, ts, &ti);
  return b;
}
static std::vector<std::string> ref_lines(OptV const& o, std::string const& logger, std::vector<std::string> const& msg_lines)
{
  auto one = [&](std::string const& m)
  {
    std::string l = ref_time(o.ts, o.tz, 1718451898) + "|" + logger + "|" + m;
    if (std::string(o.pattern).find("%(log_level)") != std::string::npos) l += "|INFO";
    return l + "\n";
  };
  std::vector<std::string> r;
  if (o.multi)
    for (auto const& m : msg_lines) r.push_back(one(m));
  else
  {
    std::string all;
    for (size_t i = 0; i < msg_lines.size(); ++i) all += (i ? "\n" : "") + msg_lines[i];
    r.push_back(one(all));
  }
  return r;
}
static void formatter_sharing()
{
  OptV const V[6] = {{"%(time)|%(logger)|%(message)", "%H:%M:%S", Timezone::GmtTime, false},
                     {"%(time)|%(logger)|%(message)", "%H:%M:%S", Timezone::LocalTime, false},
                     {"%(time)|%(logger)|%(message)", "%H:%M", Timezone::GmtTime, false},
                     {"%(time)|%(logger)|%(message)|%(log_level)", "%H:%M:%S", Timezone::GmtTime, false},
                     {"%(time)|%(logger)|%(message)", "%H:%M:%S", Timezone::GmtTime, true},
                     {"%(time)|%(logger)|%(message)", "%H:%M:%S", Timezone::GmtTime, false}};
  int pairno = 0;
  for (int i = 0; i < 6; ++i)
    for (int j = 0; j < 6; ++j)
    {
      if (i == j) continue;
      for (int third = 0; third < 2; ++third)
      {
        ++pairno;
        std::string const na = "sh" + std::to_string(pairno) + "a", nb = "sh" + std::to_string(pairno) + "b", nc = "sh" + std::to_string(pairno) + "c";
        auto sa = std::make_shared<CapSink>(), sb = std::make_shared<CapSink>(), sc = std::make_shared<CapSink>();
        auto mk = [&](std::string const& n, std::shared_ptr<CapSink> const& sk, OptV const& o)
        { return Frontend::create_or_get_logger(n, {sk}, PatternFormatterOptions{o.pattern, o.ts, o.tz, o.multi}, ClockSourceType::User, &g_clock); };
        Logger* la = mk(na, sa, V[i]);
        Logger* lb = mk(nb, sb, V[j]);
        // optional third logger with A's options, created last and used last (it may share with A, never with B)
        Logger* lc = third ? mk(nc, sc, V[i]) : nullptr;
        LOG_INFO(la, "x\ny");
        for (int p = 0; p < 6; ++p) g_worker->poll_one();
        LOG_INFO(lb, "x\ny");
        for (int p = 0; p < 6; ++p) g_worker->poll_one();
        LOG_INFO(la, "z");
        if (lc) LOG_INFO(lc, "x\ny");
        for (int p = 0; p < 8; ++p) g_worker->poll_one();
        auto check = [&](char const* who, std::shared_ptr<CapSink> const& sk, OptV const& o, std::string const& n, bool second)
        {
          std::vector<std::string> want = ref_lines(o, n, {"x", "y"});
          if (second)
            for (auto const& l : ref_lines(o, n, {"z"})) want.push_back(l);
          std::vector<std::string> got;
          for (auto const& r : sk->got) got.push_back(r.statement);
          ++g_eval;
          g_distinct.insert(vf::fnv(std::string(who) + std::to_string(i) + "/" + std::to_string(j) + "/" + std::to_string(third)));
          if (got != want)
            report("line-not-formatted-with-the-loggers-own-options",
                   "options #" + std::to_string(i) + " then #" + std::to_string(j) + (third ? " then #" + std::to_string(i) + " again" : "") + ", logger " + who,
                   "got '" + (got.empty() ? std::string("<nothing>") : got[0]) + "' (" + std::to_string(got.size()) + " lines) expected '" + want[0] + "' (" + std::to_string(want.size()) + " lines)");
        };
        check("first", sa, V[i], na, true);
        check("second", sb, V[j], nb, false);
        if (lc) check("third", sc, V[i], nc, false);
        Frontend::remove_logger(la);
        Frontend::remove_logger(lb);
        if (lc) Frontend::remove_logger(lc);
        for (int p = 0; p < 6; ++p) g_worker->poll_one();
      }
    }
}

int main(int argc, char** argv)
{
  vf::Args a{argc, argv};
  long const shard = a.geti("--shard", 0), nshards = a.geti("--nshards", 1);
  bool const share = a.geti("--share", 0) != 0;
  if (share)
  {
    setenv("TZ", "Asia/Kathmandu", 1); // UTC+5:45, no DST: local renderings differ from GMT in hours and minutes
    tzset();
  }
  g_worker = Backend::acquire_manual_backend_worker();
  BackendOptions bo;
  bo.error_notifier = [](std::string const&) {};
  bo.transit_event_buffer_initial_capacity = 1;
  bo.transit_events_soft_limit = 1;
  bo.transit_events_hard_limit = static_cast<size_t>(a.geti("--hard", 1));
  g_worker->init(bo);
  if (share)
    formatter_sharing();
  else
  {
    if (a.geti("--only-slots", 0) == 0) product(shard, nshards);
    if (shard == 0) slot_reuse();
  }
  vf::J("stat").u("evaluations", g_eval).u("executions", g_eval).u("distinct_nontrivial", g_distinct.size()).u("mismatches_total", g_viol).emit();
  vf::J("sample").s("case", "kind=1 level=ERROR logger_level=INFO s1(thr=WARNING,filters=1) s2(thr=CRITICAL,filters=0,override=1)").emit();
  vf::done();
  return 0;
}
