// C14 / C15: exhaustive enumeration of write / restart histories on the real quill::RotatingFileSink in a scratch
// directory, compared after EVERY step with a reference model of the rotation semantics the properties state:
// the reference predicts the complete set of files (parsed name -> statement ids) that must exist.
//
// State = operation history replayed on a fresh directory and a fresh sink; canonical key = directory listing
// (name, statement ids) + the sink's private bookkeeping fields, used to count distinct states.
//
// argv: --dir D --scheme index|date|datetime --limit N(0=off) --backups N(-1=unlimited) --overwrite 0|1 --mode a|w
//       --remove-old 0|1 --freq none|min|hour|daily --interval N --daily HH:MM --tz gmt|local --start <epoch secs>
//       --depth N --plant 0|1 --aux 0|1 --name app.log|app|app.v1.log --alphabet c14|c15 [--replay "ops"]
#include "quill/core/QuillError.h"
#include "quill/sinks/RotatingFileSink.h"

#include "vf_out.h"

#include <algorithm>
#include <dirent.h>
#include <fstream>
#include <map>
#include <set>
#include <sstream>
#include <string>
#include <sys/stat.h>
#include <unistd.h>
#include <vector>

using namespace quill;

struct Cfg
{
  std::string dir;
  std::string scheme{"index"};
  size_t limit{512};
  long backups{-1};
  bool overwrite{true};
  char mode{'a'};
  bool remove_old{true};
  std::string freq{"none"};
  uint32_t interval{1};
  std::string daily{"00:00"};
  bool gmt{true};
  time_t start{1718451898};
  bool plant{false};
  bool aux{false}; // a second rotating sink `app.aux.log` (same configuration) lives in the same directory
};

struct Op
{
  char kind;   // 'W' write, 'R' restart, 'X' write through the second sink (--aux 1)
  int size;    // W: statement size
  long dt;     // seconds added to the clock before the op
  char rmode;  // R: open mode of the new lifetime
};

static std::string op_str(std::vector<Op> const& h)
{
  std::string s;
  for (auto const& o : h)
  {
    if (!s.empty()) s += ' ';
    if (o.kind == 'W' || o.kind == 'X')
      s += std::string(1, o.kind) + std::to_string(o.size) + "+" + std::to_string(o.dt);
    else
      s += std::string("R") + o.rmode + "+" + std::to_string(o.dt);
  }
  return s;
}

static std::vector<Op> parse_ops(std::string const& s)
{
  std::vector<Op> h;
  std::istringstream is(s);
  std::string t;
  while (is >> t)
  {
    Op o{};
    o.kind = t[0];
    size_t plus = t.find('+');
    o.dt = atol(t.c_str() + plus + 1);
    if (o.kind == 'W' || o.kind == 'X')
      o.size = atoi(t.c_str() + 1);
    else
      o.rmode = t[1];
    h.push_back(o);
  }
  return h;
}

// ---------------------------------------------------------------------------------------------
// time helpers (independent of quill: libc only)

static std::string fmt_time(time_t t, bool gmt, char const* f)
{
  tm ti{};
  if (gmt)
    gmtime_r(&t, &ti);
  else
    localtime_r(&t, &ti);
  char b[64];
  strftime(b, sizeof b, f, &ti);
  return b;
}

// first configured rotation point strictly after `after`, for a lifetime that started at `lifetime_start`
static time_t next_grid_after(Cfg const& c, time_t lifetime_start, time_t after, int variant = 0)
{
  if (c.freq == "daily" && variant == 2)
  {
    // "every 24 hours from the first daily point" (what a +24h stepping implementation does; differs from the
    // configured local HH:MM only across a DST change) - used only to attribute a mismatch
    int hh = atoi(c.daily.substr(0, 2).c_str()), mm = atoi(c.daily.substr(3, 2).c_str());
    tm ti{};
    if (c.gmt)
      gmtime_r(&lifetime_start, &ti);
    else
      localtime_r(&lifetime_start, &ti);
    ti.tm_hour = hh;
    ti.tm_min = mm;
    ti.tm_sec = 0;
    time_t first = c.gmt ? timegm(&ti) : mktime(&ti);
    if (first <= lifetime_start) first += 86400;
    if (after < first) return first;
    return first + ((after - first) / 86400 + 1) * 86400;
  }
  if (c.freq == "daily")
  {
    int hh = atoi(c.daily.substr(0, 2).c_str()), mm = atoi(c.daily.substr(3, 2).c_str());
    // candidate days around `after` in the sink's zone
    for (int d = -1; d <= 2; ++d)
    {
      tm ti{};
      time_t base = after;
      if (c.gmt)
        gmtime_r(&base, &ti);
      else
        localtime_r(&base, &ti);
      ti.tm_mday += d;
      ti.tm_hour = hh;
      ti.tm_min = mm;
      ti.tm_sec = 0;
      ti.tm_isdst = -1;
      time_t g = c.gmt ? timegm(&ti) : mktime(&ti);
      if (g > after) return g;
    }
    return after + 86400;
  }
  long const unit = (c.freq == "min") ? 60 : 3600;
  // first top-of-unit strictly after the lifetime start (in GMT and in every zone whose offset is a multiple of the
  // unit the top of the hour is the same instant; local zones with :30/:45 offsets are handled via broken-down time)
  tm ti{};
  if (c.gmt)
    gmtime_r(&lifetime_start, &ti);
  else
    localtime_r(&lifetime_start, &ti);
  long into = (unit == 60) ? ti.tm_sec : ti.tm_min * 60 + ti.tm_sec;
  time_t first = lifetime_start - into + unit;
  long const period = unit * static_cast<long>(c.interval);
  if (after < first) return first;
  long k = (after - first) / period + 1;
  return first + k * period;
}

// ---------------------------------------------------------------------------------------------
// reference model

struct RFile
{
  std::string date; // "" for index scheme
  uint32_t index;   // index scheme: >=1; date schemes: 0 = no index
  std::vector<int> ids;
  size_t bytes;
  int lifetime; // lifetime in which it was rotated
};

struct Ref
{
  Cfg const* c;
  std::string stem{"app"};
  int variant; // 0 = as the properties state; 1 = previous lifetimes' rotated files not adopted (date schemes)
  std::vector<RFile> rotated; // newest first
  std::vector<int> active_ids;
  size_t active_bytes{0};
  time_t open_ts{0};
  time_t grid_from{0}; // the schedule is evaluated from here: the open instant, or the last due-but-skipped point
  time_t lifetime_start{0};
  int lifetime{0};
  std::set<int> epoch_ids;   // ids written since the last 'w' (re)start
  std::vector<RFile> untracked; // variant 1: files of earlier lifetimes that stay on disk but are never deleted
  bool rotation_expected_last{false};

  void start(time_t now, char mode, bool first)
  {
    lifetime_start = now;
    open_ts = now;
    grid_from = now;
    if (!first) ++lifetime;
    if (mode == 'w')
    {
      // new epoch: whatever the previous run left is unconstrained (and ignored by the comparison)
      rotated.clear();
      untracked.clear();
      active_ids.clear();
      active_bytes = 0;
      epoch_ids.clear();
    }
    else if (variant == 1 && !first)
    {
      bool const is_dt = c->scheme == "datetime";
      std::string today = fmt_time(now, c->gmt, "%Y%m%d");
      std::vector<RFile> keep;
      for (auto& f : rotated)
      {
        if (c->scheme == "index" || (!is_dt && f.date == today))
          keep.push_back(f);
        else
          untracked.push_back(f);
      }
      rotated.swap(keep);
    }
  }

  std::string suffix_for(time_t t) const
  {
    if (c->scheme == "date") return fmt_time(t, c->gmt, "%Y%m%d");
    if (c->scheme == "datetime") return fmt_time(t, c->gmt, "%Y%m%d_%H%M%S");
    return "";
  }

  void rotate(time_t now)
  {
    std::string suf = suffix_for(open_ts);
    RFile nf{suf, 0, active_ids, active_bytes, lifetime};
    if (c->scheme == "index")
    {
      for (auto& f : rotated) f.index += 1;
      nf.index = 1;
    }
    else
    {
      for (auto& f : rotated)
        if (f.date == suf) f.index += 1;
      nf.index = 0;
    }
    rotated.insert(rotated.begin(), nf);
    if (variant == 1)
    {
      // a sink that did not adopt a previous lifetime's files does not know their names either: renaming onto one of them
      // replaces it (DateAndTime names collide when the same local time occurs twice - the hour repeated at the end of DST)
      std::vector<RFile> keep;
      for (auto const& u : untracked)
      {
        bool clobbered = false;
        for (auto const& f : rotated)
          if (f.date == u.date && f.index == u.index) clobbered = true;
        if (!clobbered) keep.push_back(u);
      }
      untracked.swap(keep);
    }
    if (c->backups >= 0 && static_cast<long>(rotated.size()) > c->backups) rotated.pop_back();
    active_ids.clear();
    active_bytes = 0;
    open_ts = now;
    grid_from = now;
  }

  void write(time_t now, int id, int size)
  {
    bool want = false;
    if (c->freq != "none" && now >= next_grid_after(*c, lifetime_start, grid_from, variant))
    {
      want = true;
      // a due point with nothing to rotate (empty file, or rotation stopped) is consumed: the schedule moves on
      grid_from = now;
    }
    if (!want && c->limit != 0 && active_bytes + static_cast<size_t>(size) > c->limit) want = true;
    bool const stopped = !c->overwrite && c->backups >= 0 && static_cast<long>(rotated.size()) >= c->backups;
    rotation_expected_last = want && active_bytes > 0 && !stopped;
    if (rotation_expected_last) rotate(now);
    active_ids.push_back(id);
    active_bytes += static_cast<size_t>(size);
    epoch_ids.insert(id);
  }
};

// ---------------------------------------------------------------------------------------------
// directory inspection

struct DFile
{
  std::string name;
  std::vector<int> ids;
  size_t bytes{0};
  bool damaged{false};
};

static std::string STEM = "app"; // --name app.log (default) | app (no extension) | app.v1.log (dotted stem)
static std::string EXT = ".log";
static std::string SINK_STEM = "app"; // what the sink is constructed with (differs from STEM when the sink appends the start date)
static bool APPEND_DATE = false;

static std::vector<DFile> scan_dir(std::string const& dir, std::map<int, int> const& sizes)
{
  std::vector<DFile> r;
  DIR* d = opendir(dir.c_str());
  if (!d) return r;
  while (dirent* e = readdir(d))
  {
    std::string n = e->d_name;
    if (n == "." || n == "..") continue;
    DFile f;
    f.name = n;
    std::ifstream in(dir + "/" + n, std::ios::binary);
    std::string content((std::istreambuf_iterator<char>(in)), std::istreambuf_iterator<char>());
    f.bytes = content.size();
    size_t p = 0;
    while (p < content.size())
    {
      size_t nl = content.find('\n', p);
      std::string line = content.substr(p, nl == std::string::npos ? std::string::npos : nl - p + 1);
      if (line.size() >= 6 && line[0] == 'S')
      {
        int id = atoi(line.c_str() + 1);
        auto it = sizes.find(id);
        bool whole = it != sizes.end() && static_cast<int>(line.size()) == it->second && line.back() == '\n';
        for (size_t q = 6; whole && q + 1 < line.size(); ++q)
          if (line[q] != 'x') whole = false;
        if (!whole) f.damaged = true;
        f.ids.push_back(id);
      }
      else if (n.rfind(STEM + ".", 0) == 0 && n.find("UNRELATED") == std::string::npos && line.find("UNRELATED") == std::string::npos)
        f.damaged = true;
      if (nl == std::string::npos) break;
      p = nl + 1;
    }
    r.push_back(std::move(f));
  }
  closedir(d);
  std::sort(r.begin(), r.end(), [](DFile const& a, DFile const& b) { return a.name < b.name; });
  return r;
}

static void wipe(std::string const& dir)
{
  DIR* d = opendir(dir.c_str());
  if (!d) return;
  while (dirent* e = readdir(d))
  {
    std::string n = e->d_name;
    if (n == "." || n == "..") continue;
    unlink((dir + "/" + n).c_str());
  }
  closedir(d);
}

static std::vector<std::pair<std::string, std::string>> const PLANTED = {
  {"other.log", "UNRELATED other\n"},
  {"app.txt", "UNRELATED txt\n"},
  {"app2.1.log", "UNRELATED app2\n"},
  {"app.old.log", "UNRELATED old\n"},
  {"app.7x.log", "UNRELATED 7x\n"}};

// name a reference file gets on disk
static std::string ref_name(RFile const& f, std::string const& stem = STEM)
{
  std::string n = stem;
  if (!f.date.empty()) n += "." + f.date;
  if (f.index > 0) n += "." + std::to_string(f.index);
  return n + EXT;
}

// ---------------------------------------------------------------------------------------------

struct Outcome
{
  bool ok{true};
  std::string kind, detail;
  int step{-1};
  bool matches_variant1{false};
  bool matches_variant2{false};
  std::string state_key;
};

static unsigned long long g_exec = 0, g_steps = 0;
static std::set<uint64_t> g_states;
static unsigned long long g_rotations_seen = 0, g_deletions_seen = 0, g_time_rotations = 0;

static std::string ids_str(std::vector<int> const& v)
{
  std::string s;
  for (int x : v) s += std::to_string(x) + ",";
  return s;
}

static bool compare(Ref const& ref, std::vector<DFile> const& files, std::string& why)
{
  // predicted files that hold statements of the current epoch (incl. the active one)
  std::map<std::string, std::vector<int>> want;
  for (auto const& f : ref.rotated) want[ref_name(f, ref.stem)] = f.ids;
  for (auto const& f : ref.untracked) want[ref_name(f, ref.stem)] = f.ids;
  want[ref.stem + EXT] = ref.active_ids;
  std::map<std::string, std::vector<int>> got;
  for (auto const& f : files)
  {
    if (f.damaged)
    {
      why = "file " + f.name + " holds a torn / foreign line";
      return false;
    }
    bool epoch = false;
    for (int id : f.ids)
      if (ref.epoch_ids.count(id)) epoch = true;
    if (epoch || f.name == ref.stem + EXT) got[f.name] = f.ids;
  }
  // leftovers of a previous epoch inside a predicted file are a violation too (ids must match exactly)
  for (auto const& kv : want)
  {
    auto it = got.find(kv.first);
    if (it == got.end())
    {
      if (kv.second.empty()) continue;
      why = "missing file " + kv.first + " with statements " + ids_str(kv.second);
      return false;
    }
    if (it->second != kv.second)
    {
      why = "file " + kv.first + " holds " + ids_str(it->second) + " expected " + ids_str(kv.second);
      return false;
    }
  }
  for (auto const& kv : got)
    if (!want.count(kv.first))
    {
      why = "unexpected file " + kv.first + " with statements " + ids_str(kv.second);
      return false;
    }
  return true;
}

static Outcome run_history(Cfg const& c, std::vector<Op> const& h, bool count)
{
  Outcome out;
  wipe(c.dir);
  if (c.plant)
    for (auto const& p : PLANTED)
    {
      std::ofstream f(c.dir + "/" + p.first, std::ios::binary);
      f << p.second;
    }
  std::map<int, int> sizes;
  time_t now = c.start;
  Ref ref[3];
  for (int v = 0; v < 3; ++v)
  {
    ref[v].c = &c;
    ref[v].stem = STEM;
    ref[v].variant = v;
    ref[v].start(now, c.mode, true);
  }
  bool v1_alive = true, v2_alive = true;

  auto make_cfg = [&](char mode)
  {
    RotatingFileSinkConfig rc;
    if (c.limit) rc.set_rotation_max_file_size(c.limit);
    if (c.backups >= 0) rc.set_max_backup_files(static_cast<uint32_t>(c.backups));
    rc.set_overwrite_rolled_files(c.overwrite);
    rc.set_remove_old_files(c.remove_old);
    rc.set_open_mode(mode);
    rc.set_write_buffer_size(0);
    if (APPEND_DATE) rc.set_filename_append_option(FilenameAppendOption::StartDate);
    rc.set_timezone(c.gmt ? Timezone::GmtTime : Timezone::LocalTime);
    if (c.scheme == "date")
      rc.set_rotation_naming_scheme(RotatingFileSinkConfig::RotationNamingScheme::Date);
    else if (c.scheme == "datetime")
      rc.set_rotation_naming_scheme(RotatingFileSinkConfig::RotationNamingScheme::DateAndTime);
    if (c.freq == "min")
      rc.set_rotation_frequency_and_interval('M', c.interval);
    else if (c.freq == "hour")
      rc.set_rotation_frequency_and_interval('H', c.interval);
    else if (c.freq == "daily")
      rc.set_rotation_time_daily(c.daily);
    return rc;
  };
  auto tp = [](time_t t) { return std::chrono::system_clock::time_point{std::chrono::seconds{t}}; };

  // second sink: opened first, three statements written (two rotated files exist when the main sink is opened); it is
  // never restarted, so its own reference needs no adoption
  std::unique_ptr<RotatingFileSink> aux;
  Ref refx;
  refx.c = &c;
  refx.variant = 0;
  refx.stem = STEM + ".aux";
  int next_id = 1;
  auto aux_write = [&](int size)
  {
    int id = next_id++;
    sizes[id] = size;
    char head[16];
    snprintf(head, sizeof head, "S%05d", id);
    std::string line = head;
    line.append(static_cast<size_t>(size) - 7, 'x');
    line += '\n';
    refx.write(now, id, size);
    aux->write_log(nullptr, static_cast<uint64_t>(now) * 1000000000ull, "1", "t", "1", "L", LogLevel::Info, "INFO", "I", nullptr, "", line);
    aux->flush_sink();
  };
  if (c.aux)
  {
    refx.start(now, 'a', true);
    try
    {
      aux = std::make_unique<RotatingFileSink>(fs::path{c.dir + "/" + SINK_STEM + ".aux" + EXT}, make_cfg('a'), FileEventNotifier{}, tp(now));
      for (int k = 0; k < 3; ++k) aux_write(313);
    }
    catch (std::exception const& e)
    {
      out.ok = false;
      out.kind = "constructor-threw";
      out.detail = e.what();
      out.step = 0;
      return out;
    }
  }

  std::unique_ptr<RotatingFileSink> sink;
  try
  {
    sink = std::make_unique<RotatingFileSink>(fs::path{c.dir + "/" + SINK_STEM + EXT}, make_cfg(c.mode), FileEventNotifier{}, tp(now));
  }
  catch (std::exception const& e)
  {
    out.ok = false;
    out.kind = "constructor-threw";
    out.detail = e.what();
    out.step = 0;
    return out;
  }
  if (count) ++g_exec;
  for (size_t i = 0; i < h.size(); ++i)
  {
    Op const& o = h[i];
    now += o.dt;
    size_t const rot_before = ref[0].rotated.size();
    try
    {
      if (o.kind == 'W')
      {
        int id = next_id++;
        sizes[id] = o.size;
        char head[16];
        snprintf(head, sizeof head, "S%05d", id);
        std::string line = head;
        line.append(static_cast<size_t>(o.size) - 7, 'x');
        line += '\n';
        for (int v = 0; v < 3; ++v) ref[v].write(now, id, o.size);
        sink->write_log(nullptr, static_cast<uint64_t>(now) * 1000000000ull, "1", "t", "1", "L", LogLevel::Info, "INFO", "I", nullptr, "",
                        line);
        sink->flush_sink();
      }
      else if (o.kind == 'X')
        aux_write(o.size);
      else
      {
        sink.reset();
        for (int v = 0; v < 3; ++v) ref[v].start(now, o.rmode, false);
        sink = std::make_unique<RotatingFileSink>(fs::path{c.dir + "/" + SINK_STEM + EXT}, make_cfg(o.rmode), FileEventNotifier{}, tp(now));
      }
    }
    catch (std::exception const& e)
    {
      out.ok = false;
      out.kind = "sink-threw";
      out.detail = e.what();
      out.step = static_cast<int>(i);
      return out;
    }
    if (count)
    {
      ++g_steps;
      if (o.kind == 'W' && ref[0].rotation_expected_last)
      {
        ++g_rotations_seen;
        if (ref[0].rotated.size() <= rot_before && c.backups >= 0) ++g_deletions_seen;
      }
    }
    std::vector<DFile> files = scan_dir(c.dir, sizes);
    // planted files that can never be the sink's own names must be untouched
    if (c.plant)
      for (auto const& p : PLANTED)
      {
        if (p.first == "app.old.log" || p.first == "app.7x.log") continue; // share stem + extension: clean-up may take them
        bool found = false;
        for (auto const& f : files)
          if (f.name == p.first && f.bytes == p.second.size()) found = true;
        if (!found)
        {
          out.ok = false;
          out.kind = "unrelated-file-touched";
          out.detail = p.first;
          out.step = static_cast<int>(i);
          return out;
        }
      }
    std::string why, why1;
    bool ok0 = compare(ref[0], files, why);
    if (getenv("VF_ROT_DEBUG"))
    {
      fprintf(stderr, "step %zu (%c dt=%ld now=%ld) dir:", i, o.kind, o.dt, static_cast<long>(now));
      for (auto const& f : files) fprintf(stderr, " %s[%s]", f.name.c_str(), ids_str(f.ids).c_str());
      fprintf(stderr, "  ref0 %s %s\n", ok0 ? "agrees" : "differs:", why.c_str());
    }
    if (c.aux)
    {
      std::string whyx;
      if (!compare(refx, files, whyx))
      {
        out.ok = false;
        out.kind = "files-of-another-sink-touched";
        out.detail = whyx;
        out.step = static_cast<int>(i);
        return out;
      }
    }
    if (v1_alive && !compare(ref[1], files, why1)) v1_alive = false;
    if (v2_alive && !compare(ref[2], files, why1)) v2_alive = false;
    // state key: directory + private fields of the sink
    {
      std::string k;
      for (auto const& f : files) k += f.name + ":" + ids_str(f.ids) + "|";
      k += std::to_string(sink->_file_size) + "/" + std::to_string(sink->_open_file_timestamp) + "/";
      if (c.freq != "none") k += std::to_string(sink->_next_rotation_time) + "/";
      for (auto const& cf : sink->_created_files) k += cf.base_filename.filename().string() + "." + cf.date_time + "." + std::to_string(cf.index) + ";";
      if (c.aux)
      {
        k += "#" + std::to_string(aux->_file_size) + "/";
        for (auto const& cf : aux->_created_files) k += cf.base_filename.filename().string() + "." + cf.date_time + "." + std::to_string(cf.index) + ";";
      }
      if (count) g_states.insert(vf::fnv(k));
      out.state_key = k;
    }
    if (!ok0)
    {
      out.ok = false;
      out.kind = "directory-differs-from-reference";
      out.detail = why;
      out.step = static_cast<int>(i);
      out.matches_variant1 = v1_alive;
      out.matches_variant2 = v2_alive;
      return out;
    }
  }
  return out;
}

int main(int argc, char** argv)
{
  vf::Args a{argc, argv};
  Cfg c;
  c.dir = a.get("--dir", "/dev/shm/quill-verif-rot");
  c.scheme = a.get("--scheme", "index");
  c.limit = static_cast<size_t>(a.geti("--limit", 512));
  c.backups = a.geti("--backups", -1);
  c.overwrite = a.geti("--overwrite", 1) != 0;
  c.mode = a.get("--mode", "a")[0];
  c.remove_old = a.geti("--remove-old", 1) != 0;
  c.freq = a.get("--freq", "none");
  c.interval = static_cast<uint32_t>(a.geti("--interval", 1));
  c.daily = a.get("--daily", "00:00");
  c.gmt = std::string(a.get("--tz", "gmt")) == "gmt";
  c.start = static_cast<time_t>(a.geti("--start", 1718451898));
  c.plant = a.geti("--plant", 0) != 0;
  c.aux = a.geti("--aux", 0) != 0;
  std::string const fname = a.get("--name", "app.log");
  if (fname != "app+date.log") SINK_STEM = "";
  if (fname == "app")
    EXT = "";
  else if (fname == "app.v1.log")
    STEM = "app.v1";
  else if (fname == "app+date.log")
  {
    // FilenameAppendOption::StartDate: the sink is constructed with app.log and names its file app_<date>.log, <date> being the
    // wall-clock date at construction (the sink does not take it from the start_time argument)
    APPEND_DATE = true;
    if (a.get("--zone"))
    {
      setenv("TZ", a.get("--zone"), 1);
      tzset();
    }
    STEM = "app_" + fmt_time(time(nullptr), c.gmt, "%Y%m%d");
  }
  if (fname != "app.log" && fname != "app" && fname != "app.v1.log" && fname != "app+date.log")
  {
    vf::J("error").s("msg", "unknown --name").emit();
    return 2;
  }
  if (SINK_STEM.empty()) SINK_STEM = STEM;
  int const depth = static_cast<int>(a.geti("--depth", 4));
  std::string const alphabet = a.get("--alphabet", "c14");
  if (char const* z = a.get("--zone"))
  {
    setenv("TZ", z, 1);
    tzset();
  }
  mkdir(c.dir.c_str(), 0755);

  auto cfg_str = [&]()
  {
    return "scheme=" + c.scheme + " limit=" + std::to_string(c.limit) + " backups=" + std::to_string(c.backups) +
      " overwrite=" + std::to_string(c.overwrite) + " mode=" + std::string(1, c.mode) + " remove_old=" + std::to_string(c.remove_old) +
      " freq=" + c.freq + " interval=" + std::to_string(c.interval) + " daily=" + c.daily + " tz=" + (c.gmt ? "gmt" : "local") +
      (a.get("--zone") ? std::string("(") + a.get("--zone") + ")" : "") + " start=" + std::to_string(c.start) + " plant=" + std::to_string(c.plant) + (c.aux ? " aux=1" : "") + (fname != "app.log" ? " name=" + fname : "");
  };

  auto emit_viol = [&](std::vector<Op> const& h, Outcome const& o, bool attributed_planted = false)
  {
    std::vector<Op> pre(h.begin(), h.begin() + o.step + 1);
    bool restart = false, a_restart = false;
    long total_dt = 0, max_dt = 0;
    for (auto const& op : pre)
    {
      if (op.kind == 'R')
      {
        restart = true;
        if (op.rmode == 'a') a_restart = true;
      }
      total_dt += op.dt;
      max_dt = std::max(max_dt, op.dt);
    }
    vf::J("viol")
      .s("kind", o.kind)
      .s("detail", o.detail)
      .s("case", op_str(pre))
      .s("config", cfg_str())
      .s("scheme", c.scheme)
      .s("freq", c.freq)
      .b("restart_in_history", restart)
      .b("append_restart_in_history", a_restart)
      // (the first open of an append-mode configuration over a directory that already holds the planted files is the same
      // situation as an append-mode restart)
      .b("opened_in_append_mode_over_existing_files", a_restart || (c.mode == 'a' && c.plant))
      .b("matches_non_adopting_reference", o.matches_variant1 && a_restart && c.scheme != "index")
      .b("matches_24h_stepping_daily_reference", o.matches_variant2 && c.freq == "daily" && !c.gmt)
      .b("planted_lookalike_files", c.plant)
      .b("second_sink_in_directory", c.aux)
      .b("clean_without_planted_lookalike_files", attributed_planted)
      .i("max_gap_s", max_dt)
      .emit();
  };

  if (char const* rp = a.get("--replay"))
  {
    std::vector<Op> h = parse_ops(rp);
    Outcome o1 = run_history(c, h, false);
    Outcome o2 = run_history(c, h, false);
    if (o1.ok != o2.ok || o1.detail != o2.detail) vf::J("error").s("msg", "replay nondeterministic").emit();
    if (!o1.ok) emit_viol(h, o1);
    wipe(c.dir);
    rmdir(c.dir.c_str());
    vf::done();
    return 0;
  }

  std::vector<Op> ops;
  if (alphabet == "c14")
  {
    std::vector<long> dts = (c.scheme == "index") ? std::vector<long>{0} : std::vector<long>{0, 1, 86400};
    std::vector<int> szs = (c.scheme == "index") ? std::vector<int>{200, 312, 313, 600} : std::vector<int>{312, 313, 600};
    for (int sz : szs)
      for (long dt : dts) ops.push_back({'W', sz, dt, 0});
    ops.push_back({'R', 0, (c.scheme == "index") ? 0L : 1L, 'a'});
    ops.push_back({'R', 0, 0, 'w'});
    if (c.scheme != "index") ops.push_back({'R', 0, 86400, 'a'});
    if (c.aux) ops.push_back({'X', 313, 0, 0});
  }
  else
  {
    long const period = (c.freq == "min" ? 60L : c.freq == "hour" ? 3600L : 86400L) * static_cast<long>(c.freq == "daily" ? 1 : c.interval);
    std::set<long> dts = {0, 1, period - 1, period, period + 1, 3 * period + 7, 26 * 3600};
    if (c.freq == "daily" && !c.gmt)
    {
      dts.insert(1800);
      dts.insert(3600);
    }
    int const sz = (c.limit != 0) ? 200 : 40;
    for (long dt : dts) ops.push_back({'W', sz, dt, 0});
    if (c.limit != 0) ops.push_back({'W', 400, 0, 0});
    ops.push_back({'R', 0, 1, 'a'});
  }

  // canon-on-replay / determinism: the same history twice must give the same final key
  {
    std::vector<Op> probe;
    for (int i = 0; i < depth && i < static_cast<int>(ops.size()); ++i) probe.push_back(ops[static_cast<size_t>(i) % ops.size()]);
    Outcome o1 = run_history(c, probe, false), o2 = run_history(c, probe, false);
    if (o1.state_key != o2.state_key || o1.ok != o2.ok) vf::J("error").s("msg", "state key differs when the same history is replayed").emit();
  }

  // enumerate all histories of length `depth` (every prefix is checked on the way); a violating prefix is reported
  // once and its extensions are skipped
  std::vector<size_t> idx(static_cast<size_t>(depth), 0);
  std::set<std::string> reported;
  std::set<std::string> bad_prefixes;
  unsigned long long histories = 0, viols = 0, skipped_undefined = 0;
  size_t samples = 0;
  while (true)
  {
    std::vector<Op> h;
    for (size_t i : idx) h.push_back(ops[i]);
    // skip if a violating prefix is already known
    bool skip = false;
    {
      std::string pfx;
      for (size_t i = 0; i < h.size(); ++i)
      {
        pfx += std::to_string(idx[i]) + ",";
        if (bad_prefixes.count(pfx))
        {
          skip = true;
          break;
        }
      }
    }
    if (!skip && !c.remove_old && c.scheme != "datetime")
    {
      // a write-mode restart that keeps old files followed by an append-mode restart that adopts them: which of the
      // kept files belong to "the sequence" is not defined by the property - not enumerated (DESIGN.md, C14 limits)
      bool w_seen = (c.mode == 'w');
      for (auto const& op : h)
      {
        if (op.kind == 'R' && op.rmode == 'w') w_seen = true;
        if (op.kind == 'R' && op.rmode == 'a' && w_seen) skip = true;
      }
      if (skip) ++skipped_undefined;
    }
    if (!skip)
    {
      Outcome o = run_history(c, h, true);
      ++histories;
      if (!o.ok)
      {
        ++viols;
        std::string pfx;
        for (int i = 0; i <= o.step; ++i) pfx += std::to_string(idx[static_cast<size_t>(i)]) + ",";
        bad_prefixes.insert(pfx);
        bool attributed_planted = false;
        if (c.plant)
        {
          Cfg c2 = c;
          c2.plant = false;
          std::vector<Op> pre(h.begin(), h.begin() + o.step + 1);
          attributed_planted = run_history(c2, pre, false).ok;
        }
        std::string sig = o.kind + (o.matches_variant1 ? "|v1" : "|") + (o.matches_variant2 && c.freq == "daily" && !c.gmt ? "|v2" : "|") + (attributed_planted ? "|planted" : (reported.size() < 6 ? pfx : ""));
        if (reported.insert(sig).second && reported.size() <= 12) emit_viol(h, o, attributed_planted);
      }
      else if (samples < 2 && (histories % 1013) == 17)
      {
        vf::J("sample").s("config", cfg_str()).s("history", op_str(h)).s("final_state", o.state_key).emit();
        ++samples;
      }
    }
    int p = depth - 1;
    while (p >= 0 && ++idx[static_cast<size_t>(p)] == ops.size())
    {
      idx[static_cast<size_t>(p)] = 0;
      --p;
    }
    if (p < 0) break;
  }
  wipe(c.dir);
  rmdir(c.dir.c_str());
  vf::J("stat")
    .u("executions", histories)
    .u("states", g_states.size())
    .u("transitions", g_steps)
    .u("traces_validated_against_impl", histories)
    .u("rotations_predicted", g_rotations_seen)
    .u("deletions_predicted", g_deletions_seen)
    .u("configurations", 1)
    .u("violating_histories", viols)
    .u("histories_outside_property", skipped_undefined)
    .emit();
  vf::done();
  return 0;
}
