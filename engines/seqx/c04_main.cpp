// C04: every single / ordered pair (/ triple over the variable-length sub-menu) of argument types from the menu x
// every value combination of their alphabets is logged through the real frontend and decoded/formatted by the real
// backend; the text is compared with fmtquill::format evaluated at the call site (then sanitised); the originals are
// destroyed and their backing storage overwritten and freed BEFORE the backend runs (build with -fsanitize=address);
// bytes reserved == bytes consumed is checked through the queue's private positions.
//
// compile-time: -DVF_SHARD=k -DVF_NSHARDS=n select the rows (first type index) this TU instantiates.
#include "c04_menu.h"

#include "vf_out.h"

#include <algorithm>
#include <set>

#ifndef VF_SHARD
  #define VF_SHARD 0
#endif
#ifndef VF_NSHARDS
  #define VF_NSHARDS 1
#endif

using namespace quill;

thread_local int g_fmt_calls_deferred_pod, g_fmt_calls_deferred_nt, g_fmt_calls_direct;
int g_last_fmt_tid_deferred_pod, g_last_fmt_tid_deferred_nt, g_last_fmt_tid_direct;

struct CaptureSink : public Sink
{
  std::vector<std::string> got;
  void write_log(MacroMetadata const*, uint64_t, std::string_view, std::string_view, std::string const&, std::string_view,
                 LogLevel, std::string_view, std::string_view, std::vector<std::pair<std::string, std::string>> const*,
                 std::string_view msg, std::string_view) override
  {
    got.emplace_back(msg);
  }
  void flush_sink() override {}
};

struct FixedClock : public UserClockSource
{
  uint64_t now() const override { return 1718451898123456789ull; }
};

static ManualBackendWorker* g_worker;
static std::shared_ptr<CaptureSink> g_sink;
static Logger* g_logger;
static FixedClock g_clock;
static unsigned long long g_eval = 0, g_viol = 0, g_tuples = 0;
static std::set<uint64_t> g_distinct;
static std::set<std::string> g_sigs;
static size_t g_samples = 0;
static std::vector<std::string> g_notifier;

static detail::UnboundedSPSCQueue& queue()
{
  return detail::get_local_thread_context<FrontendOptions>()->get_spsc_queue<FrontendOptions::queue_type>();
}
static size_t writer_pos() { return queue()._producer->bounded_queue._writer_pos; }
static size_t reader_pos() { return queue()._consumer->bounded_queue._reader_pos; }

// attribution only (never hides anything else): the backend text equals the call-site text once the double quotes around
// the text of a direct-format value nested inside an optional are removed
static bool only_nested_direct_quoting(std::string got, std::string const& want)
{
  bool changed = false;
  size_t p = 0;
  while ((p = got.find("\"direct(", p)) != std::string::npos)
  {
    size_t const e = got.find(")\"", p);
    if (e == std::string::npos) break;
    got.erase(e + 1, 1);
    got.erase(p, 1);
    changed = true;
  }
  return changed && got == want;
}

static void report(char const* kind, std::string const& types, std::string const& got, std::string const& want, std::string const& extra)
{
  ++g_viol;
  bool const nested_direct = types.find("OptDirect") != std::string::npos && only_nested_direct_quoting(got, want);
  std::string sig = std::string(kind) + "|" + (nested_direct ? std::string("nested-direct") : types);
  if (!g_sigs.insert(sig).second || g_sigs.size() > 40) return;
  vf::J("viol").s("kind", kind).s("types", types).s("got", got.substr(0, 300)).s("want", want.substr(0, 300)).s("case", types + " " + extra)
    .b("direct_format_value_nested_in_optional", types.find("OptDirect") != std::string::npos)
    .b("equal_after_removing_quotes_around_nested_direct_text", nested_direct).emit();
}

static bool same_char_multiset(std::string a, std::string b)
{
  std::sort(a.begin(), a.end());
  std::sort(b.begin(), b.end());
  return a == b;
}

// after the producer side is gone: poll, compare
static void finish_statement(std::string const& types, std::string const& expected, size_t reserved, bool unordered_loose,
                             std::string const& extra)
{
  size_t const r0 = reader_pos();
  g_sink->got.clear();
  for (int i = 0; i < 3; ++i) g_worker->poll_one();
  size_t const consumed = reader_pos() - r0;
  ++g_eval;
  g_distinct.insert(vf::fnv(expected, vf::fnv(types)));
  if (g_sink->got.size() != 1)
  {
    report("not-delivered-once", types, std::to_string(g_sink->got.size()) + " lines", expected, extra);
    return;
  }
  std::string const& got = g_sink->got[0];
  bool const ok = unordered_loose ? (got.size() == expected.size() && same_char_multiset(got, expected)) : got == expected;
  if (!ok) report("text-differs-from-call-site", types, got, expected, extra);
  if (reserved != consumed)
    report("reserved-ne-consumed", types, std::to_string(consumed), std::to_string(reserved), extra);
  if (ok && g_samples < 4 && (g_eval % 2003) == 5)
  {
    vf::J("sample").s("types", types).s("message", got.substr(0, 120)).emit();
    ++g_samples;
  }
}

template <typename A>
static void single_test()
{
  static constexpr MacroMetadata md{"c04.cpp:1", "single", "[{}]", nullptr, LogLevel::Info, MacroMetadata::Event::Log};
  size_t na;
  {
    Backing b;
    na = Alpha<A>::values(b).size();
  }
  ++g_tuples;
  for (size_t ia = 0; ia < na; ++ia)
  {
    Backing back;
    std::string expected;
    size_t reserved;
    {
      std::vector<A> va = Alpha<A>::values(back);
      A a = va[ia];
      expected = sanitize_ref(fmtquill::format("[{}]", oracle_arg(a)));
      size_t const w0 = writer_pos();
      g_logger->log_statement<false, false>(LogLevel::None, &md, a);
      reserved = writer_pos() - w0;
    }
    back.scramble_and_free();
    finish_statement(Alpha<A>::name(), expected, reserved, false, "value#" + std::to_string(ia));
  }
}

template <typename A, typename B>
static void pair_test()
{
  static constexpr MacroMetadata md{"c04.cpp:2", "pair", "{}|{}", nullptr, LogLevel::Info, MacroMetadata::Event::Log};
  size_t na, nb;
  {
    Backing b;
    na = Alpha<A>::values(b).size();
    nb = Alpha<B>::values(b).size();
  }
  ++g_tuples;
  std::string const types = std::string(Alpha<A>::name()) + "," + Alpha<B>::name();
  for (size_t ia = 0; ia < na; ++ia)
    for (size_t ib = 0; ib < nb; ++ib)
    {
      Backing back;
      std::string expected;
      size_t reserved;
      {
        std::vector<A> va = Alpha<A>::values(back);
        std::vector<B> vb = Alpha<B>::values(back);
        A a = va[ia];
        B b = vb[ib];
        expected = sanitize_ref(fmtquill::format("{}|{}", oracle_arg(a), oracle_arg(b)));
        size_t const w0 = writer_pos();
        g_logger->log_statement<false, false>(LogLevel::None, &md, a, b);
        reserved = writer_pos() - w0;
      }
      back.scramble_and_free();
      finish_statement(types, expected, reserved, false, "values#" + std::to_string(ia) + "," + std::to_string(ib));
    }
}

template <typename A, typename B, typename C>
static void triple_test()
{
  static constexpr MacroMetadata md{"c04.cpp:3", "triple", "{}<{}>{}", nullptr, LogLevel::Info, MacroMetadata::Event::Log};
  size_t na, nb, nc;
  {
    Backing b;
    na = Alpha<A>::values(b).size();
    nb = Alpha<B>::values(b).size();
    nc = Alpha<C>::values(b).size();
  }
  ++g_tuples;
  std::string const types = std::string(Alpha<A>::name()) + "," + Alpha<B>::name() + "," + Alpha<C>::name();
  for (size_t ia = 0; ia < na; ++ia)
    for (size_t ib = 0; ib < nb; ++ib)
      for (size_t ic = 0; ic < nc; ++ic)
      {
        // keep the triple product bounded: all combinations of the first four values, then a diagonal
        if ((ia > 3 || ib > 3 || ic > 3) && !(ia == ib && ib == ic)) continue;
        Backing back;
        std::string expected;
        size_t reserved;
        {
          std::vector<A> va = Alpha<A>::values(back);
          std::vector<B> vb = Alpha<B>::values(back);
          std::vector<C> vc = Alpha<C>::values(back);
          A a = va[ia];
          B b = vb[ib];
          C c = vc[ic];
          expected = sanitize_ref(fmtquill::format("{}<{}>{}", oracle_arg(a), oracle_arg(b), oracle_arg(c)));
          size_t const w0 = writer_pos();
          g_logger->log_statement<false, false>(LogLevel::None, &md, a, b, c);
          reserved = writer_pos() - w0;
        }
        back.scramble_and_free();
        finish_statement(types, expected, reserved, false,
                         "values#" + std::to_string(ia) + "," + std::to_string(ib) + "," + std::to_string(ic));
      }
}

// ---- compile-time enumeration, sharded on the first index ---------------------------------------------

// quick tier: pairs only inside this sub-menu (every codec family is represented); singles always for all types
static constexpr bool in_pair_menu(int i)
{
#if defined(VF_QUICK)
  constexpr int sub[] = {1, 6, 10, 13, 15, 16, 17, 18, 19, 20, 22, 25, 26, 35, 40, 43, 45, 47, 49, 52, 53, 54, 55, 56, 57, 59, 62, 63, 65};
  for (int x : sub)
    if (x == i) return true;
  return false;
#else
  (void)i;
  return true;
#endif
}

template <int I, int J>
static void maybe_pair()
{
  if constexpr (in_pair_menu(I) && in_pair_menu(J)) pair_test<typename TypeAt<I>::type, typename TypeAt<J>::type>();
}

template <int I, int... Js>
static void row(std::integer_sequence<int, Js...>)
{
  using A = typename TypeAt<I>::type;
  single_test<A>();
  (maybe_pair<I, Js>(), ...);
}

template <int... Is>
static void rows(std::integer_sequence<int, Is...>)
{
  (([]
    {
      if constexpr ((Is % VF_NSHARDS) == VF_SHARD) row<Is>(std::make_integer_sequence<int, MENU_SIZE>{});
    }()),
   ...);
}

// variable-length sub-menu for triples (these share the per-thread size cache)
template <int I>
struct VarAt;
template <>
struct VarAt<0>
{
  using type = char const*;
};
template <>
struct VarAt<1>
{
  using type = std::string;
};
template <>
struct VarAt<2>
{
  using type = std::string_view;
};
template <>
struct VarAt<3>
{
  using type = VecS;
};
template <>
struct VarAt<4>
{
  using type = int;
};
template <>
struct VarAt<5>
{
  using type = Direct;
};
static constexpr int VAR_SIZE = 6;

template <int I, int J, int... Ks>
static void triple_row(std::integer_sequence<int, Ks...>)
{
  (triple_test<typename VarAt<I>::type, typename VarAt<J>::type, typename VarAt<Ks>::type>(), ...);
}
template <int... IJs>
static void triples(std::integer_sequence<int, IJs...>)
{
  (([]
    {
      if constexpr ((IJs % VF_NSHARDS) == VF_SHARD)
        triple_row<IJs / VAR_SIZE, IJs % VAR_SIZE>(std::make_integer_sequence<int, VAR_SIZE>{});
    }()),
   ...);
}

// ---- special shapes: char arrays, unordered containers with several elements, many C strings ---------------

static void special_tests()
{
  // a statement without arguments is its format string, byte for byte (sanitisation concerns string arguments), whatever
  // the backend formatted just before it
  {
    static constexpr MacroMetadata md_int{"c04.cpp:8", "pre", "n={}", nullptr, LogLevel::Info, MacroMetadata::Event::Log};
    static constexpr MacroMetadata md_str{"c04.cpp:9", "pre", "s={}", nullptr, LogLevel::Info, MacroMetadata::Event::Log};
    static constexpr MacroMetadata md_raw{"c04.cpp:10", "raw", "progress\t50%\x1b[0m done \xc3\xa9", nullptr, LogLevel::Info, MacroMetadata::Event::Log};
    for (int pre = 0; pre < 3; ++pre)
    {
      size_t reserved;
      {
        std::string s = "tab\there";
        if (pre == 0)
          g_logger->log_statement<false, false>(LogLevel::None, &md_int, 7);
        else if (pre == 1)
          g_logger->log_statement<false, false>(LogLevel::None, &md_str, s);
        else
          g_logger->log_statement<false, false>(LogLevel::None, &md_str, s.c_str());
        for (int i = 0; i < 3; ++i) g_worker->poll_one();
        size_t const w0 = writer_pos();
        g_logger->log_statement<false, false>(LogLevel::None, &md_raw);
        reserved = writer_pos() - w0;
      }
      finish_statement("(no arguments)", "progress\t50%\x1b[0m done \xc3\xa9", reserved, false, "after statement kind#" + std::to_string(pre));
    }
    ++g_tuples;
  }
  // a statement abandoned between sizing and encoding (the direct formatter throws on the caller) leaves nothing behind
  // that the next statement could pick up (string lengths are cached per thread between the two steps)
  {
    static constexpr MacroMetadata md_dt{"c04.cpp:11", "dt", "{} {}", nullptr, LogLevel::Info, MacroMetadata::Event::Log};
    static constexpr MacroMetadata md_probe{"c04.cpp:12", "probe", "probe [{}] [{}]", nullptr, LogLevel::Info, MacroMetadata::Event::Log};
    for (int variant = 0; variant < 2; ++variant)
    {
      Backing back;
      std::string expected;
      size_t reserved;
      {
        char const* shortp = back.put("ab");
        char const* longp = back.put("0123456789");
        g_direct_throw = true;
        bool threw = false;
        try
        {
          if (variant == 0)
            g_logger->log_statement<false, false>(LogLevel::None, &md_dt, shortp, DirectThrow{1});
          else
            g_logger->log_statement<false, false>(LogLevel::None, &md_dt, DirectThrow{1}, shortp);
        }
        catch (std::exception const&)
        {
          threw = true;
        }
        g_direct_throw = false;
        if (!threw) report("direct-formatter-exception-swallowed", "DirectThrow", "", "", "variant#" + std::to_string(variant));
        for (int i = 0; i < 3; ++i) g_worker->poll_one();
        expected = fmtquill::format("probe [{}] [{}]", longp, shortp);
        size_t const w0 = writer_pos();
        g_logger->log_statement<false, false>(LogLevel::None, &md_probe, longp, shortp);
        reserved = writer_pos() - w0;
      }
      back.scramble_and_free();
      finish_statement("char const*,char const* after an abandoned statement", expected, reserved, false, "variant#" + std::to_string(variant));
    }
    ++g_tuples;
  }
  // terminated / unterminated char arrays with partners on both sides
  {
    static constexpr MacroMetadata md{"c04.cpp:4", "arr", "{}|{}|{}|{}", nullptr, LogLevel::Info, MacroMetadata::Event::Log};
    for (int variant = 0; variant < 3; ++variant)
    {
      std::string expected;
      size_t reserved;
      {
        char term[8] = "abc";
        char unterm[4] = {'w', 'x', 'y', 'z'};
        char empty[3] = {'\0', 'q', 'q'};
        std::string s = variant == 0 ? "" : variant == 1 ? "tail" : std::string(13, 't');
        if (variant == 2) memcpy(term, "1234567", 8);
        expected = sanitize_ref(fmtquill::format("{}|{}|{}|{}", std::string_view{term, strnlen(term, 8)},
                                                 std::string_view{unterm, strnlen(unterm, 4)}, std::string_view{empty, strnlen(empty, 3)}, s));
        size_t const w0 = writer_pos();
        g_logger->log_statement<false, false>(LogLevel::None, &md, term, unterm, empty, s);
        reserved = writer_pos() - w0;
        memset(term, 'Z', 8);
        memset(unterm, 'Z', 4);
      }
      finish_statement("char[8],char[4],char[3],std::string", expected, reserved, false, "variant#" + std::to_string(variant));
    }
    ++g_tuples;
  }
  // unordered containers with several elements: rendering order is unspecified -> character multiset comparison
  {
    static constexpr MacroMetadata md{"c04.cpp:5", "unord", "{} {} {} {}", nullptr, LogLevel::Info, MacroMetadata::Event::Log};
    std::string expected;
    size_t reserved;
    {
      USetI a{1, 22, 333};
      UMSetS b{"x", "yy", "x"};
      UMapSI c{{"k1", 1}, {"k22", 22}};
      UMMapIS d{{1, "a"}, {1, "bb"}, {2, "c"}};
      expected = sanitize_ref(fmtquill::format("{} {} {} {}", a, b, c, d));
      size_t const w0 = writer_pos();
      g_logger->log_statement<false, false>(LogLevel::None, &md, a, b, c, d);
      reserved = writer_pos() - w0;
    }
    finish_statement("USetI,UMSetS,UMapSI,UMMapIS", expected, reserved, true, "three-element values");
    ++g_tuples;
  }
  // 12 and 13 variable-length C strings in one statement (size cache inline capacity is 12)
  {
    static constexpr MacroMetadata md12{"c04.cpp:6", "c12", "{}{}{}{}{}{}{}{}{}{}{}{}", nullptr, LogLevel::Info, MacroMetadata::Event::Log};
    static constexpr MacroMetadata md13{"c04.cpp:7", "c13", "{}{}{}{}{}{}{}{}{}{}{}{}{}", nullptr, LogLevel::Info, MacroMetadata::Event::Log};
    for (int n : {12, 13})
    {
      Backing back;
      std::string expected;
      size_t reserved;
      {
        char const* p[13];
        for (int i = 0; i < 13; ++i) p[i] = back.put(std::string(static_cast<size_t>(i), static_cast<char>('a' + i)) + "|");
        size_t const w0 = writer_pos();
        if (n == 12)
        {
          expected = fmtquill::format("{}{}{}{}{}{}{}{}{}{}{}{}", p[0], p[1], p[2], p[3], p[4], p[5], p[6], p[7], p[8], p[9], p[10], p[11]);
          g_logger->log_statement<false, false>(LogLevel::None, &md12, p[0], p[1], p[2], p[3], p[4], p[5], p[6], p[7], p[8], p[9], p[10], p[11]);
        }
        else
        {
          expected = fmtquill::format("{}{}{}{}{}{}{}{}{}{}{}{}{}", p[0], p[1], p[2], p[3], p[4], p[5], p[6], p[7], p[8], p[9], p[10], p[11], p[12]);
          g_logger->log_statement<false, false>(LogLevel::None, &md13, p[0], p[1], p[2], p[3], p[4], p[5], p[6], p[7], p[8], p[9], p[10], p[11], p[12]);
        }
        reserved = writer_pos() - w0;
      }
      back.scramble_and_free();
      finish_statement(n == 12 ? "12 x char const*" : "13 x char const*", expected, reserved, false, "");
      ++g_tuples;
    }
  }
}

int main(int argc, char** argv)
{
  vf::Args a{argc, argv};
  g_sanit_mode = static_cast<int>(a.geti("--sanit", 0));
  g_worker = Backend::acquire_manual_backend_worker();
  BackendOptions bo;
  if (g_sanit_mode == 1)
    bo.check_printable_char = {};
  else if (g_sanit_mode == 2)
    bo.check_printable_char = [](char c) { return (c >= ' ' && c <= '~') || c == '\n' || c == '\t' || static_cast<unsigned char>(c) >= 0x80; };
  bo.error_notifier = [](std::string const& s) { g_notifier.push_back(s); };
  g_worker->init(bo);
  g_sink = std::make_shared<CaptureSink>();
  g_logger = Frontend::create_or_get_logger("L", g_sink, PatternFormatterOptions{"%(message)", "%H:%M:%S.%Qns", Timezone::GmtTime, false},
                                            ClockSourceType::User, &g_clock);
  rows(std::make_integer_sequence<int, MENU_SIZE>{});
#if defined(VF_TRIPLES)
  triples(std::make_integer_sequence<int, VAR_SIZE * VAR_SIZE>{});
#endif
  if (VF_SHARD == 0) special_tests();
  // "Could not format" notifications are never expected for well-typed statements
  for (auto const& n : g_notifier)
    if (n.find("Could not format") != std::string::npos) report("format-error-notified", "?", n, "", "");
  vf::J("stat").u(g_sanit_mode == 0 ? "sanitisation_default_runs" : g_sanit_mode == 1 ? "sanitisation_disabled_runs" : "sanitisation_user_predicate_runs", 1).u("evaluations", g_eval).u("type_tuples", g_tuples).u("distinct_nontrivial", g_distinct.size()).u("mismatches_total", g_viol).emit();
  vf::done();
  return 0;
}
