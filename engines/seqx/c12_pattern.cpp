// C12: bounded exhaustive enumeration of format patterns x attribute values x message shapes against an
// independent reference substitution, on (1) PatternFormatter::format directly and (2) the whole
// frontend -> ManualBackendWorker -> sink path (multi-line handling, run-time metadata, sink override).
//
// argv: --mode direct|e2e --k <max attrs per pattern> --shard i --nshards n
#include "quill/Backend.h"
#include "quill/Frontend.h"
#include "quill/LogMacros.h"
#include "quill/Logger.h"
#include "quill/UserClockSource.h"
#include "quill/backend/ManualBackendWorker.h"
#include "quill/backend/PatternFormatter.h"
#include "quill/sinks/Sink.h"
#include "quill/bundled/fmt/args.h"

#include "vf_out.h"

#include <algorithm>
#include <map>
#include <set>
#include <string>
#include <vector>

using namespace quill;

static char const* const ATTR[16] = {"time",      "file_name",  "caller_function", "log_level",       "log_level_short_code",
                                     "line_number", "logger",    "full_path",       "thread_id",       "thread_name",
                                     "process_id",  "source_location", "short_source_location", "message", "tags",
                                     "named_args"};

struct Values
{
  std::string v[16];
};

// ---------------------------------------------------------------------------------------------
// independent reference

static bool is_align(char c) { return c == '<' || c == '>' || c == '^'; }

// apply an fmt string spec ([[fill]align][width][.precision]) to a string value; returns false if the
// spec is outside the sub-grammar the reference implements
static bool apply_spec(std::string const& spec, std::string const& val, std::string& out)
{
  size_t p = 0;
  char fill = ' ';
  char align = '<';
  if (spec.size() >= 2 && is_align(spec[1]))
  {
    fill = spec[0];
    align = spec[1];
    p = 2;
  }
  else if (!spec.empty() && is_align(spec[0]))
  {
    align = spec[0];
    p = 1;
  }
  size_t width = 0;
  while (p < spec.size() && isdigit(static_cast<unsigned char>(spec[p]))) width = width * 10 + static_cast<size_t>(spec[p++] - '0');
  long prec = -1;
  if (p < spec.size() && spec[p] == '.')
  {
    ++p;
    prec = 0;
    while (p < spec.size() && isdigit(static_cast<unsigned char>(spec[p]))) prec = prec * 10 + (spec[p++] - '0');
  }
  if (p < spec.size() && spec[p] == 's') ++p;
  if (p != spec.size()) return false;
  std::string v = val;
  if (prec >= 0 && static_cast<size_t>(prec) < v.size()) v.resize(static_cast<size_t>(prec));
  if (v.size() >= width)
  {
    out += v;
    return true;
  }
  size_t pad = width - v.size();
  size_t left = align == '>' ? pad : (align == '^' ? pad / 2 : 0);
  out.append(left, fill);
  out += v;
  out.append(pad - left, fill);
  return true;
}

struct RefResult
{
  bool valid{true};       // pattern is well formed
  bool supported{true};   // reference can evaluate it
  bool literal_has_brace{false};
  std::string text;
};

static RefResult reference(std::string const& pattern, Values const& vals)
{
  RefResult r;
  size_t p = 0;
  while (p < pattern.size())
  {
    if (pattern[p] == '%' && p + 1 < pattern.size() && pattern[p + 1] == '(')
    {
      size_t close = pattern.find(')', p + 2);
      if (close == std::string::npos)
      {
        r.valid = false;
        return r;
      }
      std::string inner = pattern.substr(p + 2, close - (p + 2));
      std::string name = inner, spec;
      size_t colon = inner.find(':');
      if (colon != std::string::npos)
      {
        name = inner.substr(0, colon);
        spec = inner.substr(colon + 1);
      }
      int id = -1;
      for (int i = 0; i < 16; ++i)
        if (name == ATTR[i]) id = i;
      if (id < 0)
      {
        r.valid = false;
        return r;
      }
      if (!apply_spec(spec, vals.v[id], r.text)) r.supported = false;
      p = close + 1;
    }
    else
    {
      if (pattern[p] == '{' || pattern[p] == '}') r.literal_has_brace = true;
      r.text += pattern[p];
      ++p;
    }
  }
  r.text += '\n';
  return r;
}

// What an implementation that hands literal text to fmt unescaped produces: every %(attr:spec) becomes an
// explicitly indexed replacement field, literal text is copied verbatim, fmt decides.  Used only to
// attribute a mismatch on a pattern with literal braces to exactly that cause.
static bool fmt_style(std::string const& pattern, Values const& vals, std::string& out)
{
  std::string f;
  fmtquill::dynamic_format_arg_store<fmtquill::format_context> store;
  size_t p = 0;
  while (p < pattern.size())
  {
    if (pattern[p] == '%' && p + 1 < pattern.size() && pattern[p + 1] == '(')
    {
      size_t close = pattern.find(')', p + 2);
      std::string inner = pattern.substr(p + 2, close - (p + 2));
      std::string name = inner, spec;
      size_t colon = inner.find(':');
      if (colon != std::string::npos)
      {
        name = inner.substr(0, colon);
        spec = inner.substr(colon);
      }
      int id = 0;
      for (int i = 0; i < 16; ++i)
        if (name == ATTR[i]) id = i;
      f += "{" + spec + "}";
      store.push_back(vals.v[id]);
      p = close + 1;
    }
    else
      f += pattern[p++];
  }
  f += "\n";
  try
  {
    out = fmtquill::vformat(f, store);
    return true;
  }
  catch (std::exception const&)
  {
    return false;
  }
}

// ---------------------------------------------------------------------------------------------

static unsigned long long g_eval = 0, g_patterns = 0, g_viol = 0, g_rejected_ok = 0;
static std::set<uint64_t> g_distinct;
static std::set<std::string> g_viol_sigs;
static size_t g_samples = 0;

static void report(char const* kind, std::string const& pattern, std::string const& got, std::string const& want,
                   bool literal_brace, std::string const& extra, std::string const& sig_extra = "", bool attributed = false)
{
  ++g_viol;
  // one record per (kind, pattern shape) - values vary a lot, keep the output bounded
  std::string sig = std::string(kind) + "|" + (attributed ? "brace" : pattern) + "|" + sig_extra;
  if (!g_viol_sigs.insert(sig).second || g_viol_sigs.size() > 60) return;
  vf::J("viol")
    .s("kind", kind)
    .s("pattern", pattern)
    .s("got", got.substr(0, 300))
    .s("want", want.substr(0, 300))
    .b("literal_has_brace", literal_brace)
    .b("attributed_to_literal_brace", attributed)
    .s("case", extra)
    .emit();
}

static Values make_values(int variant)
{
  Values v;
  // source location "dir/file.cpp:123"
  std::string path, file, line, func, level, code, logger, tid, tname, pid, msg, tags, nargs, time;
  switch (variant)
  {
  case 0:
    path = "/src/dir/file.cpp"; line = "123"; func = "main"; level = "INFO"; code = "I"; logger = "root"; tid = "4242";
    tname = "worker"; pid = "777"; msg = "hello world"; tags = "#tag "; nargs = "a: 1, b: 2";
    break;
  case 1: // empty wherever the API allows an empty value
    path = "f.c"; line = "1"; func = ""; level = ""; code = ""; logger = ""; tid = ""; tname = ""; pid = ""; msg = "";
    tags = ""; nargs = "";
    break;
  case 2: // braces / percent signs / pattern look-alikes in values
    path = "C:/p{}/%(x):2/f{0}.cpp"; line = "9"; func = "fn{}%(message)"; level = "{LVL}"; code = "%"; logger = "lg{}%(time)";
    tid = "{1}"; tname = "%(thread_name)"; pid = "{{}}"; msg = "m {} %( %% }{ {0} {name}"; tags = "#{} %"; nargs = "k{}: v%(";
    break;
  default: // very long
    path = "/" + std::string(300, 'd') + "/" + std::string(290, 'f') + ".cpp"; line = "65535"; func = std::string(600, 'q');
    level = std::string(600, 'L'); code = std::string(600, 'c'); logger = std::string(600, 'g'); tid = std::string(600, '7');
    tname = std::string(600, 'n'); pid = std::string(600, '1'); msg = std::string(600, 'm'); tags = std::string(600, '#');
    nargs = std::string(600, 'a');
    break;
  }
  std::string fname = path.substr(path.rfind('/') == std::string::npos ? 0 : path.rfind('/') + 1);
  v.v[0] = "";              // time: filled by the caller (depends on the timestamp)
  v.v[1] = fname;
  v.v[2] = func;
  v.v[3] = level;
  v.v[4] = code;
  v.v[5] = line;
  v.v[6] = logger;
  v.v[7] = path;
  v.v[8] = tid;
  v.v[9] = tname;
  v.v[10] = pid;
  v.v[11] = path + ":" + line;
  v.v[12] = fname + ":" + line;
  v.v[13] = msg;
  v.v[14] = tags;
  v.v[15] = nargs;
  return v;
}

static std::vector<std::pair<std::string, std::string>> parse_nargs(std::string const& s, int variant)
{
  // named args are supplied as a vector of pairs; the reference joins them as "k: v, k: v"
  std::vector<std::pair<std::string, std::string>> r;
  if (variant == 0)
  {
    r.emplace_back("a", "1");
    r.emplace_back("b", "2");
  }
  else if (variant == 2)
    r.emplace_back("k{}", "v%(");
  else if (variant == 3)
    r.emplace_back(std::string(597, 'a').replace(297, 2, ": "), "");
  (void)s;
  return r;
}

static void check_direct(std::string const& pattern)
{
  ++g_patterns;
  // reference validity first
  Values probe = make_values(0);
  RefResult r0 = reference(pattern, probe);
  std::unique_ptr<PatternFormatter> pf;
  bool thrown = false;
  std::string what;
  try
  {
    pf = std::make_unique<PatternFormatter>(PatternFormatterOptions{pattern, "%H:%M:%S.%Qns", Timezone::GmtTime});
  }
  catch (QuillError const& e)
  {
    thrown = true;
    what = e.what();
  }
  if (!r0.valid)
  {
    ++g_eval;
    if (thrown)
      ++g_rejected_ok;
    else
      report("invalid-pattern-accepted", pattern, "", "", r0.literal_has_brace, "constructor did not throw");
    return;
  }
  if (thrown)
  {
    ++g_eval;
    report("valid-pattern-rejected", pattern, what, "", r0.literal_has_brace, "constructor threw");
    return;
  }
  if (!r0.supported) return;
  for (int variant = 0; variant < 4; ++variant)
  {
    Values vals = make_values(variant);
    uint64_t const ts = 1718451898123456789ull + static_cast<uint64_t>(variant) * 1000000007ull;
    {
      time_t secs = static_cast<time_t>(ts / 1000000000ull);
      tm ti{};
      gmtime_r(&secs, &ti);
      char b[64];
      snprintf(b, sizeof b, "%02d:%02d:%02d.%09llu", ti.tm_hour, ti.tm_min, ti.tm_sec, ts % 1000000000ull);
      vals.v[0] = b;
    }
    std::string const srcloc = vals.v[11];
    MacroMetadata md{srcloc.c_str(), vals.v[2].c_str(), "{}", vals.v[14].empty() && variant == 1 ? nullptr : vals.v[14].c_str(),
                     LogLevel::Info, MacroMetadata::Event::Log};
    auto nargs = parse_nargs(vals.v[15], variant);
    {
      // the reference value of named_args is the join of the pairs we pass
      std::string j;
      for (size_t i = 0; i < nargs.size(); ++i)
      {
        if (i) j += ", ";
        j += nargs[i].first + ": " + nargs[i].second;
      }
      vals.v[15] = j;
    }
    RefResult want = reference(pattern, vals);
    std::string got;
    bool fmt_thrown = false;
    try
    {
      got = std::string(pf->format(ts, vals.v[8], vals.v[9], vals.v[10], vals.v[6], vals.v[3], vals.v[4], md,
                                   nargs.empty() ? nullptr : &nargs, vals.v[13]));
    }
    catch (std::exception const& e)
    {
      fmt_thrown = true;
      got = std::string("EXCEPTION: ") + e.what();
    }
    ++g_eval;
    g_distinct.insert(vf::fnv(want.text, vf::fnv(pattern)));
    if (fmt_thrown || got != want.text)
    {
      bool attributed = false;
      if (want.literal_has_brace)
      {
        std::string fs;
        bool ok = fmt_style(pattern, vals, fs);
        attributed = ok ? (!fmt_thrown && got == fs) : fmt_thrown;
      }
      report(fmt_thrown ? "format-threw" : "mismatch", pattern, got, want.text, want.literal_has_brace,
             "direct variant=" + std::to_string(variant), "", attributed);
    }
    else if (g_samples < 4 && variant == 0 && (g_patterns % 997) == 3)
    {
      vf::J("sample").s("pattern", pattern).s("line", got).emit();
      ++g_samples;
    }
  }
}

static std::vector<std::string> const SEPS = {"", " ", "[", "] ", "%", "%%", "100% ", "(", ")", " - ", "{", "}", "{}", "{{"};
static std::vector<std::string> const SPECS = {"", ":<8", ":>8", ":^9", ":*<6", ":.3", ":_>12.2", ":>1"};

static int run_direct(vf::Args const& a)
{
  int const k = static_cast<int>(a.geti("--k", 2));
  long const shard = a.geti("--shard", 0), nshards = a.geti("--nshards", 1);
  unsigned long long counter = 0;
  auto mine = [&]() { return static_cast<long>(counter++ % static_cast<unsigned long long>(nshards)) == shard; };

  // (a) ordered selections of 1..k attributes; every separator in every role for k<=2, cycling for k=3
  for (int a0 = 0; a0 < 16; ++a0)
    for (auto const& pre : SEPS)
      for (auto const& post : SEPS)
        if (mine()) check_direct(pre + "%(" + ATTR[a0] + ")" + post);
  if (k >= 2)
    for (int a0 = 0; a0 < 16; ++a0)
      for (int a1 = 0; a1 < 16; ++a1)
      {
        if (a0 == a1) continue;
        for (auto const& mid : SEPS)
          for (size_t s = 0; s < SEPS.size(); ++s)
            if (mine())
              check_direct(SEPS[s] + "%(" + ATTR[a0] + ")" + mid + "%(" + ATTR[a1] + ")" + SEPS[(s * 5 + 3) % SEPS.size()]);
      }
  if (k >= 3)
    for (int a0 = 0; a0 < 16; ++a0)
      for (int a1 = 0; a1 < 16; ++a1)
        for (int a2 = 0; a2 < 16; ++a2)
        {
          if (a0 == a1 || a0 == a2 || a1 == a2) continue;
          size_t const s = static_cast<size_t>(a0 * 256 + a1 * 16 + a2);
          if (mine())
            check_direct(std::string("%(") + ATTR[a0] + ")" + SEPS[s % SEPS.size()] + "%(" + ATTR[a1] + ")" +
                         SEPS[(s / 14) % SEPS.size()] + "%(" + ATTR[a2] + ")");
          if (mine())
            check_direct(std::string("%(") + ATTR[a0] + SPECS[s % SPECS.size()] + ") %(" + ATTR[a1] +
                         SPECS[(s / 8) % SPECS.size()] + ")|%(" + ATTR[a2] + SPECS[(s / 64) % SPECS.size()] + ")");
        }
  // (b) all sixteen attributes: 16 rotations, forwards and reversed, with and without specs
  for (int rot = 0; rot < 16; ++rot)
    for (int rev = 0; rev < 2; ++rev)
      for (size_t sp = 0; sp < SPECS.size(); ++sp)
      {
        std::string p;
        for (int i = 0; i < 16; ++i)
        {
          int idx = (rot + (rev ? 15 - i : i)) % 16;
          p += std::string("%(") + ATTR[idx] + SPECS[(sp * static_cast<size_t>(i + 1)) % SPECS.size()] + ")" + (i % 3 == 0 ? " " : i % 3 == 1 ? "|" : "");
        }
        if (mine()) check_direct(p);
      }
  // (c) each attribute with each spec, alone and next to the message
  for (int a0 = 0; a0 < 16; ++a0)
    for (auto const& sp : SPECS)
    {
      if (mine()) check_direct(std::string("%(") + ATTR[a0] + sp + ")");
      if (a0 != 13 && mine()) check_direct(std::string("<%(") + ATTR[a0] + sp + ")> %(message)");
    }
  // (d) malformed patterns must be rejected at construction
  if (shard == 0)
  {
    for (char const* bad : {"%(foo)", "%(time) %(bar)", "%(message", "x %(logger:<8", "%(", "%(Time)", "%(message )", "%( message)",
                            "%(time) %(log_leve)", "%(named_arg)", "%()", "%(:<5)"})
      check_direct(bad);
  }
  return 0;
}

// ---------------------------------------------------------------------------------------------
// end to end

struct CaptureSink : public Sink
{
  using Sink::Sink;
  std::vector<std::string> lines;
  void write_log(MacroMetadata const*, uint64_t, std::string_view, std::string_view, std::string const&, std::string_view,
                 LogLevel, std::string_view, std::string_view, std::vector<std::pair<std::string, std::string>> const*,
                 std::string_view, std::string_view log_statement) override
  {
    lines.emplace_back(log_statement);
  }
  void flush_sink() override {}
};

struct FixedClock : public UserClockSource
{
  uint64_t t{1718451898123456789ull};
  uint64_t now() const override { return t; }
};

static std::vector<std::string> message_shapes()
{
  // all arrangements of up to 3 newlines between up to 4 segments drawn from {"", "x", "yy"}
  std::vector<std::string> segs = {"", "x", "yy"};
  std::set<std::string> out;
  for (int nseg = 1; nseg <= 4; ++nseg)
  {
    std::vector<size_t> idx(static_cast<size_t>(nseg), 0);
    while (true)
    {
      std::string m;
      for (int i = 0; i < nseg; ++i)
      {
        if (i) m += '\n';
        m += segs[idx[static_cast<size_t>(i)]];
      }
      out.insert(m);
      int p = nseg - 1;
      while (p >= 0 && ++idx[static_cast<size_t>(p)] == segs.size())
      {
        idx[static_cast<size_t>(p)] = 0;
        --p;
      }
      if (p < 0) break;
    }
  }
  return std::vector<std::string>(out.begin(), out.end());
}

static std::vector<std::string> split_lines(std::string const& msg)
{
  // "one complete line per message line": a text's lines are its '\n'-terminated pieces plus a final
  // unterminated piece if non-empty; the empty message is one (empty) line
  std::vector<std::string> r;
  if (msg.empty())
  {
    r.push_back("");
    return r;
  }
  size_t start = 0;
  while (start < msg.size())
  {
    size_t e = msg.find('\n', start);
    if (e == std::string::npos)
    {
      r.push_back(msg.substr(start));
      break;
    }
    r.push_back(msg.substr(start, e - start));
    start = e + 1;
  }
  return r;
}

static int run_e2e(vf::Args const& a)
{
  bool const with_named = a.geti("--named", 0) != 0;
  ManualBackendWorker* worker = Backend::acquire_manual_backend_worker();
  BackendOptions bo;
  bo.error_notifier = [](std::string const&) {};
  worker->init(bo);
  FixedClock clock;
  std::string const pid = std::to_string(getpid());
  std::string const tid = std::to_string(detail::get_thread_id());
  std::string const tname = detail::get_thread_name();
  std::vector<std::string> const msgs = message_shapes();
  std::vector<std::string> patterns = {
    "%(message)",
    "%(time) [%(thread_id)] %(short_source_location:<28) LOG_%(log_level:<9) %(logger:<12) %(message)",
    "%(log_level_short_code)|%(message)|%(named_args)|%(tags)",
    "%(message) %(file_name):%(line_number) %(caller_function) %(full_path) %(source_location) %(process_id) %(thread_name)"};
  int logger_no = 0;
  for (size_t pi = 0; pi < patterns.size(); ++pi)
    for (int meta_on = 0; meta_on < 2; ++meta_on)
      for (int override_pat = 0; override_pat < 2; ++override_pat)
      {
        std::string const& pattern = patterns[pi];
        std::string const opattern = "OVR %(message:>6) %(log_level)";
        auto s1 = std::make_shared<CaptureSink>();
        std::shared_ptr<CaptureSink> s2;
        std::vector<std::shared_ptr<Sink>> sinks{s1};
        if (override_pat)
        {
          s2 = std::make_shared<CaptureSink>(PatternFormatterOptions{opattern, "%H:%M:%S.%Qns", Timezone::GmtTime, meta_on != 0});
          sinks.push_back(s2);
        }
        std::string lname = "lg" + std::to_string(logger_no++);
        Logger* lg = Frontend::create_or_get_logger(
          lname, sinks, PatternFormatterOptions{pattern, "%H:%M:%S.%Qns", Timezone::GmtTime, meta_on != 0}, ClockSourceType::User, &clock);
        for (int runtime_md = 0; runtime_md < 2; ++runtime_md)
          for (auto const& msg : msgs)
            for (int named = 0; named <= (with_named ? 1 : 0); ++named)
            {
              s1->lines.clear();
              if (s2) s2->lines.clear();
              std::string file = "/rt:1/dir/rfile.cpp", func = "rfunc";
              uint32_t line = 77;
              static constexpr MacroMetadata md_plain{"/ct/dir/cfile.cpp:55", "cfunc", "{}", "#t ", LogLevel::Warning, MacroMetadata::Event::Log};
              static constexpr MacroMetadata md_named{"/ct/dir/cfile.cpp:55", "cfunc", "{msg}", "#t ", LogLevel::Warning, MacroMetadata::Event::Log};
              static constexpr MacroMetadata md_rt{"[placeholder]", "[placeholder]",
                                                   "{}" QUILL_MAGIC_SEPARATOR "{}" QUILL_MAGIC_SEPARATOR "{}" QUILL_MAGIC_SEPARATOR "{}",
                                                   nullptr, LogLevel::Dynamic, MacroMetadata::Event::LogWithRuntimeMetadata};
              if (named && runtime_md) continue;
              if (runtime_md)
                lg->log_statement<false, true>(LogLevel::Warning, &md_rt, msg, file, line, func);
              else
                lg->log_statement<false, false>(LogLevel::None, named ? &md_named : &md_plain, msg);
              for (int i = 0; i < 4; ++i) worker->poll_one();

              Values v;
              v.v[0] = "11:44:58.123456789";
              v.v[1] = runtime_md ? "rfile.cpp" : "cfile.cpp";
              v.v[2] = runtime_md ? "rfunc" : "cfunc";
              v.v[3] = "WARNING";
              v.v[4] = "W";
              v.v[5] = runtime_md ? "77" : "55";
              v.v[6] = lname;
              v.v[7] = runtime_md ? "/rt:1/dir/rfile.cpp" : "/ct/dir/cfile.cpp";
              v.v[8] = tid;
              v.v[9] = tname;
              v.v[10] = pid;
              v.v[11] = v.v[7] + ":" + v.v[5];
              v.v[12] = v.v[1] + ":" + v.v[5];
              v.v[14] = runtime_md ? "" : "#t ";
              std::vector<std::string> want1, want2;
              std::vector<std::string> pieces;
              if (meta_on)
                pieces = split_lines(msg);
              else
                pieces.push_back((!msg.empty() && msg.back() == '\n') ? msg.substr(0, msg.size() - 1) : msg);
              for (auto const& piece : pieces)
              {
                v.v[13] = piece;
                v.v[15] = named ? "msg: " + msg : "";
                want1.push_back(reference(pattern, v).text);
                if (s2) want2.push_back(reference(opattern, v).text);
              }
              // what "not split at all" would give (used only to attribute a named-args mismatch)
              std::vector<std::string> unsplit1, unsplit2;
              {
                v.v[13] = (!msg.empty() && msg.back() == '\n') ? msg.substr(0, msg.size() - 1) : msg;
                v.v[15] = named ? "msg: " + msg : "";
                unsplit1.push_back(reference(pattern, v).text);
                if (s2) unsplit2.push_back(reference(opattern, v).text);
              }
              ++g_eval;
              g_distinct.insert(vf::fnv(msg, vf::fnv(pattern, static_cast<uint64_t>(meta_on * 8 + override_pat * 4 + runtime_md * 2 + named))));
              auto join = [](std::vector<std::string> const& x)
              {
                std::string j;
                for (auto const& s : x) j += s;
                return j;
              };
              bool const multi = msg.find('\n') != std::string::npos;
              std::string cs = std::string("e2e meta=") + (meta_on ? "on" : "off") + " runtime_md=" + std::to_string(runtime_md) +
                " named=" + std::to_string(named) + " msg=" + vf::jesc(msg);
              if (s1->lines != want1)
              {
                ++g_viol;
                std::string sig = std::string("e2e|") + pattern + (named ? "|named" : "") + (runtime_md ? "|rt" : "") + (meta_on ? "|on" : "|off");
                if (g_viol_sigs.insert(sig).second && g_viol_sigs.size() < 40)
                  vf::J("viol").s("kind", "e2e-mismatch").s("pattern", pattern).s("got", join(s1->lines)).s("want", join(want1))
                    .b("named_args_statement", named != 0).b("multi_line", multi).b("metadata_on", meta_on != 0).b("literal_has_brace", false)
                    .b("attributed_to_named_args_unsplit", named && multi && meta_on && s1->lines == unsplit1).s("case", cs).emit();
              }
              if (s2 && s2->lines != want2)
              {
                ++g_viol;
                std::string sig = std::string("e2e-ovr|") + pattern + (named ? "|named" : "") + (runtime_md ? "|rt" : "") + (meta_on ? "|on" : "|off");
                if (g_viol_sigs.insert(sig).second && g_viol_sigs.size() < 40)
                  vf::J("viol").s("kind", "e2e-override-mismatch").s("pattern", opattern).s("got", join(s2->lines)).s("want", join(want2))
                    .b("named_args_statement", named != 0).b("multi_line", multi).b("metadata_on", meta_on != 0).b("literal_has_brace", false)
                    .b("attributed_to_named_args_unsplit", named && multi && meta_on && s2->lines == unsplit2).s("case", cs).emit();
              }
              else if (g_samples < 3 && multi && meta_on && (g_eval % 211) == 5)
              {
                vf::J("sample").s("pattern", pattern).s("msg", msg).s("lines", join(s1->lines)).emit();
                ++g_samples;
              }
            }
        Frontend::remove_logger(lg);
        for (int i = 0; i < 4; ++i) worker->poll_one();
        ++g_patterns;
      }
  return 0;
}

int main(int argc, char** argv)
{
  vf::Args a{argc, argv};
  std::string mode = a.get("--mode", "direct");
  if (char const* pat = a.get("--pattern"))
  {
    check_direct(pat);
    vf::done();
    return 0;
  }
  if (mode == "direct")
    run_direct(a);
  else
    run_e2e(a);
  std::vector<std::string> keys;
  vf::J("stat")
    .u("evaluations", g_eval)
    .u("patterns", g_patterns)
    .u("distinct_nontrivial", g_distinct.size())
    .u("rejections_confirmed", g_rejected_ok)
    .u("mismatches_total", g_viol)
    .emit();
  vf::done();
  return 0;
}
