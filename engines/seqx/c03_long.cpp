// C03 (long deterministic histories): one logging thread (plus statements of an already exited thread) issuing up to
// 300 statements of mixed sizes, with the backend polled at a fixed cadence, for every combination of transit-buffer
// capacity, soft and hard limit: drives queue growth chains (256 B -> 64 KiB), _expand of the transit ring with a wrapped
// reader position, and both limits.  No schedule branching (one process = many configurations run one after the other is
// impossible because of the process-wide singletons: one configuration per process).
//
// argv: --tbuf N --soft N --hard N --cadence C(0 = never until the end) --polls P --n N --sizes k(0..3) --dead 0|1
#include "quill/Backend.h"
#include "quill/Frontend.h"
#include "quill/LogMacros.h"
#include "quill/Logger.h"
#include "quill/backend/ManualBackendWorker.h"
#include "quill/sinks/Sink.h"

#include "vf_out.h"

#include <string>
#include <thread>
#include <vector>

using namespace quill;

struct Opt
{
#if defined(VF_BOUNDED)
  // bounded variant (C05): a blocking bounded queue large enough for the whole history (nobody polls while the thread logs)
  static constexpr QueueType queue_type = QueueType::BoundedBlocking;
  static constexpr size_t initial_queue_capacity = 4u << 20;
#else
  static constexpr QueueType queue_type = QueueType::UnboundedBlocking;
  static constexpr size_t initial_queue_capacity = 256;
#endif
  static constexpr uint32_t blocking_queue_retry_interval_ns = 800;
  static constexpr size_t unbounded_queue_max_capacity = 1024 * 1024;
  static constexpr HugePagesPolicy huge_pages_policy = HugePagesPolicy::Never;
};
using F = FrontendImpl<Opt>;
using L = LoggerImpl<Opt>;

struct Rec
{
  int sink;
  std::string msg;
};
static std::vector<Rec> g_recs;
struct CapSink : public Sink
{
  explicit CapSink(int id) : _id(id) {}
  void write_log(MacroMetadata const*, uint64_t, std::string_view, std::string_view, std::string const&, std::string_view, LogLevel,
                 std::string_view, std::string_view, std::vector<std::pair<std::string, std::string>> const*, std::string_view msg,
                 std::string_view) override
  {
    g_recs.push_back(Rec{_id, std::string(msg)});
  }
  void flush_sink() override {}
  int _id;
};

int main(int argc, char** argv)
{
  vf::Args a{argc, argv};
  long const n = a.geti("--n", 300), cadence = a.geti("--cadence", 3), polls = a.geti("--polls", 1), sizes = a.geti("--sizes", 0),
             dead = a.geti("--dead", 0);
  ManualBackendWorker* w = Backend::acquire_manual_backend_worker();
  BackendOptions bo;
  std::vector<std::string> notes;
  bo.error_notifier = [&notes](std::string const& s) { notes.push_back(s); };
  bo.transit_event_buffer_initial_capacity = static_cast<size_t>(a.geti("--tbuf", 2));
  bo.transit_events_soft_limit = static_cast<size_t>(a.geti("--soft", 2));
  bo.transit_events_hard_limit = static_cast<size_t>(a.geti("--hard", 4));
  bo.log_timestamp_ordering_grace_period = std::chrono::microseconds{0};
  w->init(bo);
  auto s1 = std::make_shared<CapSink>(1);
  auto s2 = std::make_shared<CapSink>(2);
  L* la = F::create_or_get_logger("A", {s1, s2}, PatternFormatterOptions{"%(message)"}, ClockSourceType::System);
  L* lb = F::create_or_get_logger("B", {s1}, PatternFormatterOptions{"%(message)"}, ClockSourceType::System);
  static size_t const PADS[4][6] = {{0, 0, 0, 0, 0, 0}, {0, 60, 200, 0, 500, 13}, {180, 180, 180, 180, 180, 180}, {0, 2000, 0, 9000, 1, 700}};
  std::string padbuf(20000, 'p');
  std::vector<std::string> want1, want2;
  if (dead)
  {
    // statements of a thread that exits before anything is processed
    std::thread t(
      [&]
      {
        for (int i = 1; i <= 40; ++i)
        {
          LOG_INFO(la, "d{}|{}", i, std::string_view{padbuf.data(), PADS[sizes][i % 6]});
        }
      });
    t.join();
    for (int i = 1; i <= 40; ++i)
    {
      want1.push_back("d" + std::to_string(i));
      want2.push_back("d" + std::to_string(i));
    }
  }
  for (long i = 1; i <= n; ++i)
  {
    size_t const pad = PADS[sizes][static_cast<size_t>(i) % 6];
    if (i % 2)
    {
      LOG_INFO(la, "m{}|{}", i, std::string_view{padbuf.data(), pad});
      want2.push_back("m" + std::to_string(i));
    }
    else
      LOG_INFO(lb, "m{}|{}", i, std::string_view{padbuf.data(), pad});
    want1.push_back("m" + std::to_string(i));
    if (cadence > 0 && (i % cadence) == 0)
      for (long p = 0; p < polls; ++p) w->poll_one();
  }
  int guard = 0;
  w->poll();
  for (int i = 0; i < 4 && guard++ < 10; ++i) w->poll_one();
  std::vector<std::string> got1, got2;
  for (auto const& r : g_recs) (r.sink == 1 ? got1 : got2).push_back(r.msg.substr(0, r.msg.find('|')));
  std::string cs = "tbuf=" + std::to_string(a.geti("--tbuf", 2)) + " soft=" + std::to_string(a.geti("--soft", 2)) + " hard=" + std::to_string(a.geti("--hard", 4)) +
    " cadence=" + std::to_string(cadence) + " polls=" + std::to_string(polls) + " n=" + std::to_string(n) + " sizes=" + std::to_string(sizes) + " dead=" + std::to_string(dead);
  auto cmp = [&](std::vector<std::string> const& g, std::vector<std::string> const& x, int sink)
  {
    if (g == x) return;
    size_t k = 0;
    while (k < g.size() && k < x.size() && g[k] == x[k]) ++k;
    vf::J("viol").s("kind", "lost-duplicated-or-reordered").s("case", cs).s("detail", "sink " + std::to_string(sink) + ": position " + std::to_string(k) + " got " +
                                                                             (k < g.size() ? g[k] : std::string("<end>")) + " expected " + (k < x.size() ? x[k] : std::string("<end>")) +
                                                                             " (" + std::to_string(g.size()) + " received, " + std::to_string(x.size()) + " expected)").emit();
  };
  cmp(got1, want1, 1);
  cmp(got2, want2, 2);
  for (auto const& nn : notes)
    if (nn.find("Quill INFO") == std::string::npos) vf::J("viol").s("kind", "unexpected-backend-error").s("case", cs).s("detail", nn).emit();
  // (the comparison above is a statement about the global order as well: the exited thread's statements were all enqueued,
  // with earlier timestamps, before the first statement of the main thread)
  size_t const ctx = detail::ThreadContextManager::instance()._thread_contexts.size();
  if (ctx != 1) vf::J("viol").s("kind", "contexts-not-reclaimed").s("case", cs).s("detail", std::to_string(ctx) + " contexts retained, 1 live thread").emit();
  size_t grown = 0;
  for (auto const& nn : notes)
    if (nn.find("Allocated a new SPSC queue") != std::string::npos) ++grown;
  vf::J("stat").u("executions", 1).u("long_histories", 1).u("long_history_statements", static_cast<unsigned long long>(n + (dead ? 40 : 0))).u("queue_growths_observed", grown).emit();
  if (a.geti("--sample", 0)) vf::J("sample").s("long_history", cs).u("queue_growths", grown).emit();
  vf::done();
  _exit(0);
}
