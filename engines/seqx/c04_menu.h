// Type menu and value alphabets shared by the C04 (round trip) and C11 (allocation / formatter thread) harnesses.
#pragma once
#include "quill/Backend.h"
#include "quill/DeferredFormatCodec.h"
#include "quill/DirectFormatCodec.h"
#include "quill/Frontend.h"
#include "quill/LogMacros.h"
#include "quill/Logger.h"
#include "quill/UserClockSource.h"
#include "quill/backend/ManualBackendWorker.h"
#include "quill/bundled/fmt/chrono.h"
#include "quill/bundled/fmt/ranges.h"
#include "quill/bundled/fmt/std.h"
#include "quill/sinks/Sink.h"
#include "quill/std/Array.h"
#include "quill/std/Chrono.h"
#include "quill/std/Deque.h"
#include "quill/std/FilesystemPath.h"
#include "quill/std/ForwardList.h"
#include "quill/std/List.h"
#include "quill/std/Map.h"
#include "quill/std/Optional.h"
#include "quill/std/Pair.h"
#include "quill/std/Set.h"
#include "quill/std/Tuple.h"
#include "quill/std/UnorderedMap.h"
#include "quill/std/UnorderedSet.h"
#include "quill/std/Vector.h"

#include <array>
#include <chrono>
#include <cmath>
#include <cstring>
#include <deque>
#include <filesystem>
#include <forward_list>
#include <limits>
#include <list>
#include <map>
#include <memory>
#include <optional>
#include <set>
#include <string>
#include <string_view>
#include <sys/syscall.h>
#include <tuple>
#include <unistd.h>
#include <unordered_map>
#include <unordered_set>
#include <vector>

// ---- user types ---------------------------------------------------------------------------------

extern thread_local int g_fmt_calls_deferred_pod, g_fmt_calls_deferred_nt, g_fmt_calls_direct;
extern int g_last_fmt_tid_deferred_pod, g_last_fmt_tid_deferred_nt, g_last_fmt_tid_direct;
inline int vf_tid() { return static_cast<int>(syscall(SYS_gettid)); }

enum class Color : int
{
  Red = -1,
  Green = 0,
  Blue = 2147483647
};
inline int format_as(Color c) { return static_cast<int>(c); }

struct DefPod // trivially copyable, deferred formatting (memcpy path)
{
  int a;
  double b;
  char tag[6];
};
struct DefNt // non trivially copyable, deferred formatting (placement-new path); last member is significant
{
  std::string s;
  int64_t n;
  double d;
  DefNt() = default;
  DefNt(std::string s_, int64_t n_, double d_) : s(std::move(s_)), n(n_), d(d_) {}
};
struct Direct // formatted at the call site by design
{
  std::string s;
  int n;
};

template <>
struct fmtquill::formatter<DefPod>
{
  constexpr auto parse(format_parse_context& ctx) { return ctx.begin(); }
  auto format(DefPod const& v, format_context& ctx) const
  {
    g_last_fmt_tid_deferred_pod = vf_tid();
    return fmtquill::format_to(ctx.out(), "pod({},{},{})", v.a, v.b, std::string_view{v.tag, strnlen(v.tag, 6)});
  }
};
template <>
struct fmtquill::formatter<DefNt>
{
  constexpr auto parse(format_parse_context& ctx) { return ctx.begin(); }
  auto format(DefNt const& v, format_context& ctx) const
  {
    g_last_fmt_tid_deferred_nt = vf_tid();
    return fmtquill::format_to(ctx.out(), "nt({},{},{})", v.s, v.n, v.d);
  }
};
template <>
struct fmtquill::formatter<Direct>
{
  constexpr auto parse(format_parse_context& ctx) { return ctx.begin(); }
  auto format(Direct const& v, format_context& ctx) const
  {
    g_last_fmt_tid_direct = vf_tid();
    return fmtquill::format_to(ctx.out(), "direct({},{})", v.s, v.n);
  }
};
template <>
struct quill::Codec<DefPod> : quill::DeferredFormatCodec<DefPod>
{
};
template <>
struct quill::Codec<DefNt> : quill::DeferredFormatCodec<DefNt>
{
};
template <>
struct quill::Codec<Direct> : quill::DirectFormatCodec<Direct>
{
};
// a direct-format type whose formatter (run on the calling thread while the statement is being sized) throws on demand:
// the statement is abandoned between sizing and encoding
struct DirectThrow
{
  int n;
};
inline bool g_direct_throw = false;
template <>
struct fmtquill::formatter<DirectThrow>
{
  constexpr auto parse(format_parse_context& ctx) { return ctx.begin(); }
  auto format(DirectThrow const& v, format_context& ctx) const
  {
    if (g_direct_throw) throw std::runtime_error("direct formatter failed");
    return fmtquill::format_to(ctx.out(), "dt({})", v.n);
  }
};
template <>
struct quill::Codec<DirectThrow> : quill::DirectFormatCodec<DirectThrow>
{
};

// ---- backing storage for pointer-like values ------------------------------------------------------

struct Backing
{
  std::deque<std::unique_ptr<std::vector<char>>> bufs;
  char* put(std::string const& s)
  {
    bufs.push_back(std::make_unique<std::vector<char>>(s.begin(), s.end()));
    bufs.back()->push_back('\0');
    return bufs.back()->data();
  }
  void scramble_and_free()
  {
    for (auto& b : bufs) std::fill(b->begin(), b->end(), 'Z');
    bufs.clear();
  }
};

inline std::vector<std::string> const& string_alphabet()
{
  static std::vector<std::string> const v = {
    "",
    "a",
    "hello world",           // 11
    "hello world!",          // 12
    "hello world!?",         // 13
    std::string("nul\0in", 6),
    std::string("\x01\x7f\xff\t", 4),
    "brace {} {0} %s",
    std::string(4095, 'L')};
  return v;
}

// flags
struct Flags
{
  bool unordered{false};     // rendering order unspecified (compare as character multiset)
  bool c11_eligible{true};   // listed by C11 as allocation free on the caller
  bool direct{false};        // formatted on the caller by design
};

template <typename T, typename = void>
struct Alpha; // static char const* name(); static Flags flags(); static std::vector<T> values(Backing&);

#define VF_ARITH(T, ...)                                                                          \
  template <>                                                                                     \
  struct Alpha<T>                                                                                 \
  {                                                                                               \
    static char const* name() { return #T; }                                                     \
    static Flags flags() { return {}; }                                                           \
    static std::vector<T> values(Backing&) { return std::vector<T>{__VA_ARGS__}; }                \
  }

VF_ARITH(bool, true, false);
VF_ARITH(char, 'x', '\0', '\x01', '\x7f', static_cast<char>(0xe9), '{', '\t');
VF_ARITH(signed char, -128, 127, 0);
VF_ARITH(unsigned char, 0, 255, 65);
VF_ARITH(short, -32768, 32767, -1);
VF_ARITH(unsigned short, 0, 65535);
VF_ARITH(int, std::numeric_limits<int>::min(), std::numeric_limits<int>::max(), 0, -1);
VF_ARITH(unsigned int, 0u, std::numeric_limits<unsigned>::max());
VF_ARITH(long, std::numeric_limits<long>::min(), std::numeric_limits<long>::max(), -1L);
VF_ARITH(unsigned long, 0ul, std::numeric_limits<unsigned long>::max());
VF_ARITH(long long, std::numeric_limits<long long>::min(), std::numeric_limits<long long>::max(), 72057594037927936ll);
VF_ARITH(unsigned long long, 0ull, std::numeric_limits<unsigned long long>::max());
VF_ARITH(float, 0.0f, -1.5f, std::numeric_limits<float>::infinity(), std::numeric_limits<float>::quiet_NaN(),
         std::numeric_limits<float>::denorm_min(), std::numeric_limits<float>::max());
VF_ARITH(double, 0.0, -0.0, 101.5, -std::numeric_limits<double>::infinity(), std::numeric_limits<double>::quiet_NaN(),
         std::numeric_limits<double>::denorm_min(), std::numeric_limits<double>::max(), 1e-300);
VF_ARITH(long double, 0.0L, 3.25L, std::numeric_limits<long double>::max(), -std::numeric_limits<long double>::infinity());
VF_ARITH(Color, Color::Red, Color::Green, Color::Blue);

template <>
struct Alpha<void const*>
{
  static char const* name() { return "void const*"; }
  static Flags flags() { return {}; }
  static std::vector<void const*> values(Backing&)
  {
    return {nullptr, reinterpret_cast<void const*>(0x1234), reinterpret_cast<void const*>(~uintptr_t{0})};
  }
};
template <>
struct Alpha<char const*>
{
  static char const* name() { return "char const*"; }
  static Flags flags() { return {}; }
  static std::vector<char const*> values(Backing& b)
  {
    std::vector<char const*> v;
    for (auto const& s : string_alphabet())
      if (s.find('\0') == std::string::npos) v.push_back(b.put(s));
    v.push_back(nullptr);
    return v;
  }
};
template <>
struct Alpha<char*>
{
  static char const* name() { return "char*"; }
  static Flags flags() { return {}; }
  static std::vector<char*> values(Backing& b) { return {b.put("mutable"), b.put(""), b.put(std::string(13, 'm'))}; }
};
template <>
struct Alpha<std::string>
{
  static char const* name() { return "std::string"; }
  static Flags flags() { return {}; }
  static std::vector<std::string> values(Backing&) { return string_alphabet(); }
};
template <>
struct Alpha<std::string_view>
{
  static char const* name() { return "std::string_view"; }
  static Flags flags() { return {}; }
  static std::vector<std::string_view> values(Backing& b)
  {
    std::vector<std::string_view> v;
    for (auto const& s : string_alphabet()) v.emplace_back(b.put(s), s.size());
    v.emplace_back(); // default constructed (null data)
    return v;
  }
};

#define VF_TYPE(T, FLAGS, ...)                                                                    \
  template <>                                                                                     \
  struct Alpha<T>                                                                                 \
  {                                                                                               \
    static char const* name() { return #T; }                                                     \
    static Flags flags() { return FLAGS; }                                                        \
    static std::vector<T> values(Backing&) { return std::vector<T>{__VA_ARGS__}; }                \
  }

using ArrI3 = std::array<int, 3>;
using ArrS2 = std::array<std::string, 2>;
using VecI = std::vector<int>;
using VecD = std::vector<double>;
using VecS = std::vector<std::string>;
using VecVecI = std::vector<std::vector<int>>;
using VecOptS = std::vector<std::optional<std::string>>;
using VecPairIS = std::vector<std::pair<int, std::string>>;
using DeqI = std::deque<int>;
using DeqS = std::deque<std::string>;
using ListS = std::list<std::string>;
using FwdI = std::forward_list<int>;
using SetI = std::set<int>;
using MSetS = std::multiset<std::string>;
using MapIS = std::map<int, std::string>;
using MapSVecI = std::map<std::string, std::vector<int>>;
using MMapSI = std::multimap<std::string, int>;
using USetI = std::unordered_set<int>;
using UMSetS = std::unordered_multiset<std::string>;
using UMapSI = std::unordered_map<std::string, int>;
using UMMapIS = std::unordered_multimap<int, std::string>;
using OptI = std::optional<int>;
using OptS = std::optional<std::string>;
using OptPairIS = std::optional<std::pair<int, std::string>>;
using PairIS = std::pair<int, std::string>;
using PairSVecI = std::pair<std::string, std::vector<int>>;
using TupIDS = std::tuple<int, double, std::string>;
using TupVecIS = std::tuple<std::vector<int>, std::string>;
using Secs = std::chrono::seconds;
using Millis = std::chrono::milliseconds;
using SysTp = std::chrono::system_clock::time_point;
using FsPath = std::filesystem::path;

#define VF_COMMA ,
VF_TYPE(ArrI3, {}, ArrI3{1 VF_COMMA 2 VF_COMMA 3}, ArrI3{-1 VF_COMMA 0 VF_COMMA 2147483647});
VF_TYPE(ArrS2, {}, ArrS2{"" VF_COMMA "x y"}, ArrS2{std::string(13, 'q') VF_COMMA std::string("\x01z", 2)});
VF_TYPE(VecI, {}, VecI{}, VecI{7}, VecI{1 VF_COMMA -2 VF_COMMA 3 VF_COMMA 4});
VF_TYPE(VecD, {}, VecD{}, VecD{0.5 VF_COMMA std::numeric_limits<double>::infinity()});
VF_TYPE(VecS, {}, VecS{}, VecS{""}, VecS{"a" VF_COMMA std::string("n\0l", 3) VF_COMMA std::string(13, 'v')});
VF_TYPE(VecVecI, {}, VecVecI{}, VecVecI{{} VF_COMMA {1 VF_COMMA 2} VF_COMMA {3}});
VF_TYPE(VecOptS, {}, VecOptS{std::nullopt VF_COMMA std::string("o")}, VecOptS{});
VF_TYPE(VecPairIS, {}, VecPairIS{{1 VF_COMMA "one"} VF_COMMA {2 VF_COMMA ""}});
VF_TYPE(DeqI, {}, DeqI{}, DeqI{5 VF_COMMA 6});
VF_TYPE(DeqS, {}, DeqS{"d1" VF_COMMA ""}, DeqS{});
VF_TYPE(ListS, {}, ListS{"l1" VF_COMMA "l 2"}, ListS{});
VF_TYPE(FwdI, {}, FwdI{9 VF_COMMA 8 VF_COMMA 7}, FwdI{});
VF_TYPE(SetI, {}, SetI{3 VF_COMMA 1 VF_COMMA 2}, SetI{});
VF_TYPE(MSetS, {}, MSetS{"b" VF_COMMA "a" VF_COMMA "a"}, MSetS{});
VF_TYPE(MapIS, {}, MapIS{{2 VF_COMMA "two"} VF_COMMA {1 VF_COMMA ""}}, MapIS{}, MapIS{{3 VF_COMMA std::string(40 VF_COMMA 'm')}});
VF_TYPE(MapSVecI, {}, MapSVecI{{"k" VF_COMMA VecI{1 VF_COMMA 2}} VF_COMMA {"" VF_COMMA VecI{}}});
VF_TYPE(MMapSI, {}, MMapSI{{"k" VF_COMMA 1} VF_COMMA {"k" VF_COMMA 2}}, MMapSI{}, MMapSI{{std::string(40 VF_COMMA 'k') VF_COMMA 1}});
// unordered containers: at most one element in the generic enumeration (no order ambiguity); larger ones are
// compared as character multisets in a dedicated pass
VF_TYPE(USetI, {true}, USetI{}, USetI{42});
VF_TYPE(UMSetS, {true}, UMSetS{}, UMSetS{"only"});
VF_TYPE(UMapSI, {true}, UMapSI{}, UMapSI{{"key" VF_COMMA -5}}, UMapSI{{std::string(40 VF_COMMA 'u') VF_COMMA 1}});
VF_TYPE(UMMapIS, {true}, UMMapIS{}, UMMapIS{{1 VF_COMMA "one"}}, UMMapIS{{2 VF_COMMA std::string(40 VF_COMMA 'w')}});
VF_TYPE(OptI, {}, OptI{}, OptI{0}, OptI{-7});
VF_TYPE(OptS, {}, OptS{}, OptS{""}, OptS{std::string(13, 'o')});
VF_TYPE(OptPairIS, {}, OptPairIS{}, OptPairIS{PairIS{1 VF_COMMA "p"}});
VF_TYPE(PairIS, {}, PairIS{0 VF_COMMA ""}, PairIS{-1 VF_COMMA "second"});
VF_TYPE(PairSVecI, {}, PairSVecI{"f" VF_COMMA VecI{1 VF_COMMA 2}}, PairSVecI{"" VF_COMMA VecI{}});
VF_TYPE(TupIDS, {}, TupIDS{1 VF_COMMA 2.5 VF_COMMA "t"}, TupIDS{0 VF_COMMA -0.0 VF_COMMA ""});
VF_TYPE(TupVecIS, {}, TupVecIS{VecI{1 VF_COMMA 2} VF_COMMA "tv"}, TupVecIS{VecI{} VF_COMMA ""});
VF_TYPE(Secs, {}, Secs{0}, Secs{-5}, Secs{86400});
VF_TYPE(Millis, {}, Millis{1}, Millis{999});
VF_TYPE(SysTp, {}, SysTp{} + std::chrono::seconds{1718451898}, SysTp{});
VF_TYPE(FsPath, (Flags{false VF_COMMA false VF_COMMA false}), FsPath{"/tmp/x y/file.log"}, FsPath{""}, FsPath{"rel/p"});
VF_TYPE(DefPod, {}, DefPod{1 VF_COMMA 2.5 VF_COMMA "abc"}, DefPod{-1 VF_COMMA -0.0 VF_COMMA {'s' VF_COMMA 'i' VF_COMMA 'x' VF_COMMA 'c' VF_COMMA 'h' VF_COMMA 'r'}});
VF_TYPE(DefNt, (Flags{false VF_COMMA false VF_COMMA false}), DefNt{"nt" VF_COMMA -6 VF_COMMA 101.5}, DefNt{std::string(40, 'N') VF_COMMA 72057594037927936ll VF_COMMA -1e300});
VF_TYPE(Direct, (Flags{false VF_COMMA false VF_COMMA true}), Direct{"dir" VF_COMMA 3}, Direct{"" VF_COMMA -1});

// ---- containers / optionals / pairs / tuples whose ELEMENTS use the per-thread size cache (C strings, direct-format types),
// and ordered containers with a non-default comparator (the backend must keep the caller's iteration order)
using OptCs = std::optional<char const*>;
using VecCs = std::vector<char const*>;
using PairCsI = std::pair<char const*, int>;
using TupCsSCs = std::tuple<char const*, std::string, char const*>;
using ArrCs2 = std::array<char const*, 2>;
using MapICs = std::map<int, char const*>;
using OptDirect = std::optional<Direct>;
using SetIGt = std::set<int, std::greater<int>>;
using MSetSGt = std::multiset<std::string, std::greater<>>;
using MapISGt = std::map<int, std::string, std::greater<int>>;
#define VF_TYPE_BF(T, FLAGS, ...)                                                                          \
  template <>                                                                                      \
  struct Alpha<T>                                                                                  \
  {                                                                                                \
    static char const* name() { return #T; }                                                      \
    static Flags flags() { return FLAGS; }                                                         \
    static std::vector<T> values(Backing& b)                                                       \
    {                                                                                              \
      (void)b;                                                                                     \
      return std::vector<T>{__VA_ARGS__};                                                          \
    }                                                                                              \
  }
#define VF_TYPE_B(T, ...) VF_TYPE_BF(T, {}, __VA_ARGS__)
VF_TYPE_B(OptCs, OptCs{}, OptCs{b.put("abcdef")}, OptCs{b.put("")});
VF_TYPE_B(VecCs, VecCs{}, VecCs{b.put("a") VF_COMMA b.put("bcd") VF_COMMA b.put("")}, VecCs{b.put(std::string(13, 'c'))});
VF_TYPE_B(PairCsI, PairCsI{b.put("first") VF_COMMA 1}, PairCsI{b.put("") VF_COMMA -1});
VF_TYPE_B(TupCsSCs, TupCsSCs{b.put("t1") VF_COMMA "mid" VF_COMMA b.put("last-one")}, TupCsSCs{b.put("") VF_COMMA "" VF_COMMA b.put("x")});
VF_TYPE_B(ArrCs2, ArrCs2{b.put("ab") VF_COMMA b.put("cdefg")}, ArrCs2{b.put("") VF_COMMA b.put("")});
VF_TYPE_B(MapICs, MapICs{}, MapICs{{2 VF_COMMA b.put("two")} VF_COMMA {1 VF_COMMA b.put("")}});
VF_TYPE_BF(OptDirect, (Flags{false VF_COMMA false VF_COMMA true}), OptDirect{}, OptDirect{Direct{"od" VF_COMMA 4}});
VF_TYPE_B(SetIGt, SetIGt{}, SetIGt{1 VF_COMMA 10 VF_COMMA 2 VF_COMMA 3});
VF_TYPE_B(MSetSGt, MSetSGt{"a" VF_COMMA "b" VF_COMMA "a" VF_COMMA "c"}, MSetSGt{});
VF_TYPE_B(MapISGt, MapISGt{{1 VF_COMMA "one"} VF_COMMA {3 VF_COMMA "three"} VF_COMMA {2 VF_COMMA ""}}, MapISGt{});

// the menu, by index
template <int I>
struct TypeAt;
#define VF_MENU(X)                                                                                                     \
  X(0, bool) X(1, char) X(2, signed char) X(3, unsigned char) X(4, short) X(5, unsigned short) X(6, int) X(7, unsigned int)      \
  X(8, long) X(9, unsigned long) X(10, long long) X(11, unsigned long long) X(12, float) X(13, double) X(14, long double)        \
  X(15, Color) X(16, void const*) X(17, char const*) X(18, char*) X(19, std::string) X(20, std::string_view) X(21, ArrI3)        \
  X(22, ArrS2) X(23, VecI) X(24, VecD) X(25, VecS) X(26, VecVecI) X(27, VecOptS) X(28, VecPairIS) X(29, DeqI) X(30, DeqS)         \
  X(31, ListS) X(32, FwdI) X(33, SetI) X(34, MSetS) X(35, MapIS) X(36, MapSVecI) X(37, MMapSI) X(38, USetI) X(39, UMSetS)          \
  X(40, UMapSI) X(41, UMMapIS) X(42, OptI) X(43, OptS) X(44, OptPairIS) X(45, PairIS) X(46, PairSVecI) X(47, TupIDS)              \
  X(48, TupVecIS) X(49, Secs) X(50, Millis) X(51, SysTp) X(52, FsPath) X(53, DefPod) X(54, DefNt) X(55, Direct)              \
  X(56, OptCs) X(57, VecCs) X(58, PairCsI) X(59, TupCsSCs) X(60, ArrCs2) X(61, MapICs) X(62, OptDirect) X(63, SetIGt)            \
  X(64, MSetSGt) X(65, MapISGt)
#define VF_DEF_AT(I, T)                                                                            \
  template <>                                                                                      \
  struct TypeAt<I>                                                                                 \
  {                                                                                                \
    using type = T;                                                                                \
  };
VF_MENU(VF_DEF_AT)
static constexpr int MENU_SIZE = 66;

// normalisation of the call-site oracle: a null C string is rendered as empty text by quill (the call-site
// formatter rejects it)
template <typename T>
inline T const& oracle_arg(T const& v)
{
  return v;
}
inline char const* oracle_arg(char const* const& v) { return v ? v : ""; }
inline char const* oracle_arg(char* const& v) { return v ? v : ""; }

// sanitisation configuration of the run (BackendOptions::check_printable_char): 0 = default predicate, 1 = disabled,
// 2 = user predicate that additionally lets tabs and bytes >= 0x80 (UTF-8) through
inline int g_sanit_mode = 0;
inline bool ref_printable(char c)
{
  if ((c >= ' ' && c <= '~') || c == '\n') return true;
  return g_sanit_mode == 2 && (c == '\t' || static_cast<unsigned char>(c) >= 0x80);
}
inline std::string sanitize_ref(std::string const& s)
{
  if (g_sanit_mode == 1) return s;
  std::string o;
  for (char c : s)
  {
    if (ref_printable(c))
      o += c;
    else
    {
      char b[8];
      snprintf(b, sizeof b, "\\x%02X", static_cast<unsigned char>(c));
      o += b;
    }
  }
  return o;
}
