// C10 (sequential part): faults raised INSIDE real sinks. Engine B injects faults into a recording sink of the harness; here
// the library's own sinks (FileSink, JsonFileSink, RotatingFileSink, RotatingJsonFileSink) fail on chosen writes - their
// before_write hook throws - and what they wrote is read back from the file: every statement other than the failed ones is in
// the file exactly once, whole and in order, and every failure was reported. Second part: a sink that throws on one of the
// statements replayed by flush_backtrace().
#include "quill/Backend.h"
#include "quill/Frontend.h"
#include "quill/LogMacros.h"
#include "quill/Logger.h"
#include "quill/UserClockSource.h"
#include "quill/backend/ManualBackendWorker.h"
#include "quill/sinks/FileSink.h"
#include "quill/sinks/JsonSink.h"
#include "quill/sinks/RotatingFileSink.h"
#include "quill/sinks/RotatingJsonFileSink.h"

#include "vf_out.h"

#include <fstream>
#include <set>
#include <string>
#include <unistd.h>
#include <vector>

using namespace quill;

static ManualBackendWorker* g_worker;
static std::vector<std::string> g_notes;
static unsigned long long g_eval = 0, g_viol = 0;
static std::set<uint64_t> g_distinct;
static std::set<std::string> g_sigs;

static void report(std::string const& kind, std::string const& cs, std::string const& detail)
{
  ++g_viol;
  if (!g_sigs.insert(kind + "|" + cs.substr(0, cs.find(' '))).second || g_sigs.size() > 12) return;
  vf::J("viol").s("kind", kind).s("case", cs).s("detail", detail).emit();
}

static std::vector<std::string> read_lines(std::string const& path)
{
  std::vector<std::string> r;
  std::ifstream in(path, std::ios::binary);
  std::string l;
  while (std::getline(in, l)) r.push_back(l);
  return r;
}

struct FixedClock : public UserClockSource
{
  mutable uint64_t t{1718451898000000000ull};
  uint64_t now() const override { return t += 1000; }
};
static FixedClock g_clock;

// kind: 0 FileSink, 1 JsonFileSink, 2 RotatingFileSink, 3 RotatingJsonFileSink
static char const* const KIND[4] = {"FileSink", "JsonFileSink", "RotatingFileSink", "RotatingJsonFileSink"};

static void sink_faults(std::string const& dir)
{
  int const n = 5;
  int cfgno = 0;
  for (int kind = 0; kind < 4; ++kind)
    for (int f1 = 1; f1 <= n; ++f1)
      for (int f2 = f1; f2 <= n; ++f2) // f2 == f1: a single fault
        for (int named = 0; named < 2; ++named)
        {
          ++cfgno;
          std::string const path = dir + "/c10_" + std::to_string(cfgno) + (kind & 1 ? ".json" : ".log");
          unlink(path.c_str());
          auto calls = std::make_shared<int>(0);
          FileEventNotifier fen;
          fen.before_write = [calls, f1, f2](std::string_view m)
          {
            int const c = ++*calls;
            if (c == f1 || c == f2) throw std::runtime_error("injected write failure #" + std::to_string(c));
            return std::string{m};
          };
          std::shared_ptr<Sink> sink;
          std::string const sname = "sink" + std::to_string(cfgno);
          if (kind == 0)
          {
            FileSinkConfig c;
            c.set_open_mode('w');
            sink = Frontend::create_or_get_sink<FileSink>(path, c, fen);
          }
          else if (kind == 1)
          {
            FileSinkConfig c;
            c.set_open_mode('w');
            sink = Frontend::create_or_get_sink<JsonFileSink>(path, c, fen);
          }
          else
          {
            RotatingFileSinkConfig c;
            c.set_open_mode('w');
            c.set_rotation_max_file_size(1u << 20);
            if (kind == 2)
              sink = Frontend::create_or_get_sink<RotatingFileSink>(path, c, fen);
            else
              sink = Frontend::create_or_get_sink<RotatingJsonFileSink>(path, c, fen);
          }
          Logger* l = Frontend::create_or_get_logger("L" + std::to_string(cfgno), sink, PatternFormatterOptions{"%(message)"}, ClockSourceType::User, &g_clock);
          sink.reset();
          g_notes.clear();
          for (int i = 1; i <= n; ++i)
          {
            if (named)
              LOG_INFO(l, "s {idx} end", i);
            else
              LOG_INFO(l, "s {} end", i);
            // half of the configurations let the backend handle each statement on its own, the others in one batch
            if (cfgno & 1)
              for (int p = 0; p < 3; ++p) g_worker->poll_one();
          }
          for (int p = 0; p < 12; ++p) g_worker->poll_one();
          Frontend::remove_logger(l);
          for (int p = 0; p < 6; ++p) g_worker->poll_one();
          std::vector<std::string> const lines = read_lines(path);
          std::string const cs = std::string(KIND[kind]) + " faults on writes " + std::to_string(f1) + (f2 != f1 ? "," + std::to_string(f2) : std::string()) +
            (named ? " named" : " positional") + ((cfgno & 1) ? " one-by-one" : " batch");
          ++g_eval;
          g_distinct.insert(vf::fnv(cs));
          std::vector<int> want;
          for (int i = 1; i <= n; ++i)
            if (i != f1 && i != f2) want.push_back(i);
          size_t const nfaults = f1 == f2 ? 1 : 2;
          if (g_notes.size() < nfaults) report("sink-failure-not-reported", cs, std::to_string(g_notes.size()) + " notifications for " + std::to_string(nfaults) + " failed writes");
          if (g_notes.size() > 4 * nfaults)
            report("failure-reported-for-other-statements", cs, std::to_string(g_notes.size()) + " notifications for " + std::to_string(nfaults) + " failed writes: " + g_notes.back().substr(0, 120));
          bool ok = lines.size() == want.size();
          for (size_t k = 0; ok && k < want.size(); ++k)
          {
            std::string const& ln = lines[k];
            if (kind & 1)
            {
              // one JSON object per line, holding this statement's template and (named) its pair, nothing of another statement
              std::string const tmpl = named ? "\"message\":\"s {idx} end\"" : "\"message\":\"s {} end\"";
              bool good = !ln.empty() && ln.front() == '{' && ln.back() == '}' && ln.find(tmpl) != std::string::npos && ln.find("}{") == std::string::npos &&
                ln.find("\"message\"") == ln.rfind("\"message\"");
              if (named)
              {
                std::string const pair = "\"idx\":\"" + std::to_string(want[k]) + "\"";
                good = good && ln.find(pair) != std::string::npos && ln.find("\"idx\"") == ln.rfind("\"idx\"");
              }
              ok = good;
            }
            else
              ok = ln == "s " + std::to_string(want[k]) + " end";
          }
          if (!ok)
          {
            std::string got;
            for (auto const& x : lines) got += "[" + x.substr(0, 160) + "]";
            report("statements-after-a-failed-write-lost-or-damaged", cs, "file holds " + std::to_string(lines.size()) + " line(s), expected " + std::to_string(want.size()) + ": " + got.substr(0, 600));
          }
          unlink(path.c_str());
        }
}

struct ThrowOnSink : public Sink
{
  std::vector<std::string> got;
  std::string throw_on;
  int throws_left{0};
  void write_log(MacroMetadata const*, uint64_t, std::string_view, std::string_view, std::string const&, std::string_view, LogLevel,
                 std::string_view, std::string_view, std::vector<std::pair<std::string, std::string>> const*, std::string_view msg,
                 std::string_view) override
  {
    if (throws_left > 0 && msg == throw_on)
    {
      --throws_left;
      throw std::runtime_error("injected failure on " + throw_on);
    }
    got.emplace_back(msg);
  }
  void flush_sink() override {}
};

// a sink fails on one of the statements replayed by an explicit flush_backtrace() / by an error statement
static void backtrace_faults()
{
  int no = 0;
  for (int trigger = 0; trigger < 2; ++trigger) // 0 flush_backtrace(), 1 LOG_ERROR
    for (int k = 1; k <= 3; ++k)
    {
      ++no;
      auto s = std::make_shared<ThrowOnSink>();
      s->throw_on = "bt " + std::to_string(k);
      s->throws_left = 1;
      Logger* l = Frontend::create_or_get_logger("B" + std::to_string(no), s, PatternFormatterOptions{"%(message)"}, ClockSourceType::User, &g_clock);
      g_notes.clear();
      l->init_backtrace(3, LogLevel::Error);
      for (int p = 0; p < 3; ++p) g_worker->poll_one();
      for (int i = 1; i <= 3; ++i) LOG_BACKTRACE(l, "bt {}", i);
      std::vector<std::string> want;
      if (trigger == 0)
        l->flush_backtrace();
      else
      {
        LOG_ERROR(l, "error");
        want.push_back("error");
      }
      for (int p = 0; p < 40; ++p) g_worker->poll_one();
      LOG_INFO(l, "after");
      LOG_BACKTRACE(l, "bt 4");
      l->flush_backtrace();
      for (int p = 0; p < 40; ++p) g_worker->poll_one();
      for (int i = 1; i <= 3; ++i)
        if (i != k) want.push_back("bt " + std::to_string(i));
      want.push_back("after");
      want.push_back("bt 4");
      std::string const cs = std::string(trigger ? "LOG_ERROR" : "flush_backtrace") + " sink throws on replayed statement " + std::to_string(k) + " of 3";
      ++g_eval;
      g_distinct.insert(vf::fnv(cs));
      // judged: nothing is written twice, nothing appears that was not logged, statements logged after the failure are all there
      std::multiset<std::string> seen(s->got.begin(), s->got.end());
      std::string got;
      for (auto const& x : s->got) got += "[" + x + "]";
      bool dup = false;
      for (auto const& x : seen)
        if (seen.count(x) > 1) dup = true;
      size_t missing_other = 0;
      for (auto const& w : want)
        if (!seen.count(w)) ++missing_other;
      if (dup) report("statement-written-twice-after-sink-failure-in-backtrace-replay", cs, "sink got " + got);
      if (!seen.count("after") || !seen.count("bt 4")) report("later-statements-lost-after-sink-failure-in-backtrace-replay", cs, "sink got " + got);
      if (g_notes.empty()) report("sink-failure-not-reported", cs, "no notification");
      // the complete statement: only the statement the sink failed on is missing, everything else once and in order
      if (!dup && s->got != want) report("backtrace-replay-disturbed-by-sink-failure", cs, "sink got " + got);
      // (informational) statements of the same replay that come after the failed one
      if (missing_other) vf::J("sample").s("case", cs).s("sink_got", got).u("statements_of_the_replay_not_written", missing_other).emit();
      Frontend::remove_logger(l);
      for (int p = 0; p < 6; ++p) g_worker->poll_one();
    }
}

int main(int argc, char** argv)
{
  vf::Args a{argc, argv};
  std::string const dir = a.get("--dir", "/dev/shm");
  g_worker = Backend::acquire_manual_backend_worker();
  BackendOptions bo;
  bo.error_notifier = [](std::string const& s) { g_notes.push_back(s); };
  g_worker->init(bo);
  sink_faults(dir);
  backtrace_faults();
  vf::J("stat").u("evaluations", g_eval).u("executions", g_eval).u("distinct_nontrivial", g_distinct.size()).u("mismatches_total", g_viol).emit();
  vf::done();
  return 0;
}
