// Record emitter shared by all harnesses: one '@J {json}' line per record on stdout.
#pragma once
#include <cstdint>
#include <cstdio>
#include <cstring>
#include <string>
#include <string_view>
#include <vector>

namespace vf
{
inline std::string jesc(std::string_view s)
{
  std::string o;
  o.reserve(s.size() + 8);
  for (unsigned char c : s)
  {
    switch (c)
    {
    case '"': o += "\\\""; break;
    case '\\': o += "\\\\"; break;
    case '\n': o += "\\n"; break;
    case '\r': o += "\\r"; break;
    case '\t': o += "\\t"; break;
    default:
      if (c < 0x20 || c >= 0x7f)
      {
        char b[8];
        snprintf(b, sizeof b, "\\u%04x", c);
        o += b;
      }
      else
        o += static_cast<char>(c);
    }
  }
  return o;
}

class J
{
public:
  explicit J(char const* type)
  {
    _s = "{\"t\":\"";
    _s += type;
    _s += "\"";
  }
  J& s(char const* k, std::string_view v)
  {
    key(k);
    _s += "\"" + jesc(v) + "\"";
    return *this;
  }
  J& i(char const* k, long long v)
  {
    key(k);
    _s += std::to_string(v);
    return *this;
  }
  J& u(char const* k, unsigned long long v)
  {
    key(k);
    _s += std::to_string(v);
    return *this;
  }
  J& b(char const* k, bool v)
  {
    key(k);
    _s += v ? "true" : "false";
    return *this;
  }
  J& raw(char const* k, std::string const& json)
  {
    key(k);
    _s += json;
    return *this;
  }
  J& sv(char const* k, std::vector<std::string> const& v)
  {
    key(k);
    _s += "[";
    for (size_t n = 0; n < v.size(); ++n)
    {
      if (n) _s += ",";
      _s += "\"" + jesc(v[n]) + "\"";
    }
    _s += "]";
    return *this;
  }
  template <typename T>
  J& iv(char const* k, std::vector<T> const& v)
  {
    key(k);
    _s += "[";
    for (size_t n = 0; n < v.size(); ++n)
    {
      if (n) _s += ",";
      _s += std::to_string(static_cast<long long>(v[n]));
    }
    _s += "]";
    return *this;
  }
  void emit()
  {
    _s += "}\n";
    std::string line = "@J " + _s;
    fwrite(line.data(), 1, line.size(), stdout);
    fflush(stdout);
  }
  std::string str() const { return _s + "}"; }

private:
  void key(char const* k)
  {
    _s += ",\"";
    _s += k;
    _s += "\":";
  }
  std::string _s;
};

inline void done() { J("done").emit(); }

inline uint64_t fnv(std::string_view s, uint64_t h = 1469598103934665603ull)
{
  for (unsigned char c : s)
  {
    h ^= c;
    h *= 1099511628211ull;
  }
  return h;
}

// Minimal argv helper: --key value
struct Args
{
  int argc;
  char** argv;
  char const* get(char const* k, char const* def = nullptr) const
  {
    for (int i = 1; i + 1 < argc; ++i)
      if (!strcmp(argv[i], k)) return argv[i + 1];
    return def;
  }
  long geti(char const* k, long def) const
  {
    char const* v = get(k);
    return v ? strtol(v, nullptr, 0) : def;
  }
  bool has(char const* k) const
  {
    for (int i = 1; i < argc; ++i)
      if (!strcmp(argv[i], k)) return true;
    return false;
  }
};
} // namespace vf
