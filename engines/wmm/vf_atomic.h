// Engine A "wmm": a C++11 release/acquire/relaxed explorer for code that uses std::atomic, here the two real quill
// queue headers.  The harness TU pre-includes every header the queue headers need, then `#define atomic vf_atomic`,
// includes the queue headers and #undefs: inside them std::atomic<T> is std::vf_atomic<T>, this shim.
//
// Semantics (view-based operational model of release/acquire/relaxed):
//   every atomic location keeps its modification order as a list of messages (value, writer, writer's vector clock,
//   released view); every thread keeps a per-location view (coherence) and a vector clock (happens-before).
//   A store appends a message.  A load may read ANY message not older than the thread's view of that location
//   (= every value the load may legally return); an acquire load of a release message joins view and clock.
//   seq_cst is treated as acq/rel (exact here: the only seq_cst accesses are not concurrent with anything).
// Threads are coroutines of one OS thread; a scheduling point precedes every atomic operation.
#pragma once
#include <atomic>
#include <cstdint>
#include <cstdio>
#include <cstdlib>
#include <cstring>
#include <functional>
#include <string>
#include <ucontext.h>
#include <unordered_set>
#include <vector>

namespace wmm
{
#ifndef VF_MAXT
#define VF_MAXT 3
#endif
constexpr int MAXT = VF_MAXT; // thread 0 = init/main, 1 = producer, 2 = consumer (, 3 = second producer in the whole-system variant)
struct VC
{
  uint32_t c[MAXT]{};
  bool leq(VC const& o) const
  {
    for (int i = 0; i < MAXT; ++i)
      if (c[i] > o.c[i]) return false;
    return true;
  }
  void join(VC const& o)
  {
    for (int i = 0; i < MAXT; ++i)
      if (o.c[i] > c[i]) c[i] = o.c[i];
  }
};

struct Msg
{
  uint64_t val;
  int tid;
  VC clk;
  bool rel;
  std::vector<int> relview;
};

struct Loc
{
  std::vector<Msg> mo;
  bool dead{false};
  VC ctor_clk;
  int writer_after_init{-1};
  char const* what{""};
};

struct Thread
{
  ucontext_t ctx;
  char* stack{nullptr};
  bool started{false}, finished{false};
  std::vector<int> view;
  VC clk;
  std::string hist; // op count + every (location, message) read: the thread's state is a function of this
  unsigned ops{0};
  // waiting
  bool blocked{false};
  int wait_loc[2]{-1, -1};
  int wait_idx[2]{-1, -1};
  bool must_progress{false};
  bool progressed{false};
  // the last operation, for spin detection: a relaxed load that reads the very message the thread's previous operation (also
  // a relaxed load of the same location) read is an iteration of a spin loop (Spinlock::lock) and waits for a newer message
  bool latest_only{false}; // this thread's loads read the latest message from now on
  bool custom_wait{false}; // blocked on a harness-defined condition (custom_wake) instead of on locations
  std::function<bool()> custom_wake;
  int last_load_id{-1}, last_load_idx{-1};
  bool last_was_relaxed_load{false};
  std::function<void()> body;
};

struct Point
{
  uint64_t key;
  int n;
  int chosen;
  bool sched; // scheduling choice (else read-from choice)
  int cur_enabled;
};

struct World
{
  std::vector<Loc> locs;
  Thread th[MAXT];
  int cur{0};
  ucontext_t main_ctx;
  std::vector<int> prefix;
  std::vector<Point> trace;
  bool abort_exec{false};
  bool violation{false};
  std::string vkind, vdetail;
  bool in_exec{false};
  bool latest_only{false}; // probe mode: loads read the latest message, no choice
  bool allow_unordered_writers{false}; // harnesses whose locations legitimately have concurrent writers (read-modify-write
                                       // counters): every write then records its position in the modification order in
                                       // the writer's history, which keeps the history-based state key exact
  bool sc_only{false};     // every load reads the latest message (sequentially consistent interleavings only)
  bool auto_spin{false};   // spin detection on (whole-system harness)
  int nthreads{MAXT};
  int deviations{0};
  int gen{0};
  World() { static int g = 0; gen = ++g; }
};

extern World* W;
extern std::unordered_set<uint64_t> g_visited; // (state key, choice)
extern int g_no_record; // > 0 while the explorer allocates for structures that outlive the execution
extern unsigned long long g_pruned;

inline void fail(std::string kind, std::string detail)
{
  if (!W->violation)
  {
    W->violation = true;
    W->vkind = std::move(kind);
    W->vdetail = std::move(detail);
  }
  W->abort_exec = true;
}

inline uint64_t fnv64(void const* p, size_t n, uint64_t h = 1469598103934665603ull)
{
  auto const* b = static_cast<unsigned char const*>(p);
  for (size_t i = 0; i < n; ++i)
  {
    h ^= b[i];
    h *= 1099511628211ull;
  }
  return h;
}

inline uint64_t state_key(int extra_a, int extra_b)
{
  // the global state is a function of every thread's own history (all locations are single-writer after
  // construction, asserted on every store; threads are deterministic given what they read)
  uint64_t h = 1469598103934665603ull;
  for (int t = 0; t < W->nthreads; ++t)
  {
    Thread& T = W->th[t];
    h = fnv64(T.hist.data(), T.hist.size(), h);
    unsigned char tag[4] = {static_cast<unsigned char>(T.finished), static_cast<unsigned char>(T.blocked), static_cast<unsigned char>(T.must_progress),
                            static_cast<unsigned char>(T.progressed)};
    h = fnv64(tag, 4, h);
    h = fnv64(&T.ops, sizeof T.ops, h);
  }
  int e[2] = {extra_a, extra_b};
  h = fnv64(e, sizeof e, h);
  return h;
}

// returns the choice at this point (replaying the prefix first); may abort the execution when the (state, choice)
// pair has been explored before
inline int pick(int n, bool sched, int cur_enabled, int ea, int eb)
{
  if (n <= 1) return 0;
  size_t const i = W->trace.size();
  uint64_t const key = state_key(ea, eb) ^ (sched ? 0x9e3779b97f4a7c15ull : 0x7f4a7c159e3779b9ull);
  int c = 0;
  if (i < W->prefix.size())
  {
    c = W->prefix[i];
    if (c >= n)
    {
      fail("explorer-nondeterminism", "replayed choice out of range");
      return 0;
    }
  }
  if (i + 1 >= W->prefix.size())
  {
    // a fresh decision (the last replayed choice is the new alternative, everything after it is the default)
    uint64_t const vk = key * 1099511628211ull + static_cast<uint64_t>(c + 1);
    ++g_no_record;
    bool const known = !g_visited.insert(vk).second;
    --g_no_record;
    if (known)
    {
      ++g_pruned;
      W->abort_exec = true; // this state was already left through this choice: the rest is known
    }
  }
  W->trace.push_back(Point{key, n, c, sched, cur_enabled});
  return c;
}

inline void yield_to_main()
{
  int const me = W->cur;
  swapcontext(&W->th[me].ctx, &W->main_ctx);
}

// called by a thread before each atomic operation
inline void sched_point()
{
  if (!W->in_exec || W->cur == 0) return;
  W->th[W->cur].hist += "p;"; // the thread now stands before its next atomic operation (part of its state)
  yield_to_main();
}

inline int reg_loc(char const* what)
{
  W->locs.emplace_back();
  Loc& L = W->locs.back();
  L.what = what;
  // construction is an event of the constructing thread: an access by another thread needs happens-before from it even when
  // it is the very first thing that thread does
  if (W->in_exec && W->cur != 0) W->th[W->cur].clk.c[W->cur]++;
  L.ctor_clk = W->th[W->cur].clk;
  for (int t = 0; t < MAXT; ++t)
    if (W->th[t].view.size() < W->locs.size()) W->th[t].view.resize(W->locs.size(), 0);
  return static_cast<int>(W->locs.size()) - 1;
}

inline void init_loc(int id, uint64_t v)
{
  Loc& L = W->locs[static_cast<size_t>(id)];
  Thread& T = W->th[W->cur];
  L.mo.push_back(Msg{v, W->cur, T.clk, false, {}});
  T.view[static_cast<size_t>(id)] = 0;
  T.hist += "c;";
}

inline void check_access(int id, char const* op)
{
  Loc& L = W->locs[static_cast<size_t>(id)];
  Thread& T = W->th[W->cur];
  if (L.dead) fail("retired-node-accessed", std::string(op) + " on an atomic of a destroyed node by thread " + std::to_string(W->cur));
  if (!L.ctor_clk.leq(T.clk)) fail("no-happens-before-from-construction", std::string(op) + " on an atomic whose construction does not happen-before the access (thread " + std::to_string(W->cur) + ")");
}

inline void do_store(int id, uint64_t v, std::memory_order o)
{
  sched_point();
  if (W->abort_exec && W->in_exec && W->cur != 0) yield_to_main();
  check_access(id, "store");
  Loc& L = W->locs[static_cast<size_t>(id)];
  Thread& T = W->th[W->cur];
  if (W->cur != 0 && !L.mo.empty())
  {
    // the history-based state key needs the modification order to be a function of the threads' own histories: true if
    // every store is by the writer of the previous message or happens-after it (no two concurrent writers)
    Msg const& last = L.mo.back();
    if (last.tid != W->cur && !last.clk.leq(T.clk) && !W->allow_unordered_writers)
      fail("harness-assumption-broken", "two writers of one atomic location are not ordered by happens-before (a node is used without synchronising with its construction / publication)");
    L.writer_after_init = W->cur;
  }
  T.clk.c[W->cur]++;
  bool const rel = (o == std::memory_order_release || o == std::memory_order_seq_cst || o == std::memory_order_acq_rel);
  Msg m{v, W->cur, T.clk, rel, {}};
  T.view[static_cast<size_t>(id)] = static_cast<int>(L.mo.size());
  if (rel) m.relview = T.view;
  L.mo.push_back(std::move(m));
  ++T.ops;
  T.last_was_relaxed_load = false;
  {
    static bool const trace_on = getenv("VF_TRACE") != nullptr;
    if (trace_on) fprintf(stderr, "  t%d store L%d = %llu (msg %zu)\n", W->cur, id, static_cast<unsigned long long>(v), L.mo.size() - 1);
  }
  T.hist += W->allow_unordered_writers ? "s@" + std::to_string(L.mo.size() - 1) + ";" : std::string("s;");
}

// read-modify-write: reads the last message of the modification order (atomicity) and writes right after it; a relaxed
// RMW continues the release sequence of the message it read.  The index read is part of the thread's history, so the
// modification order stays a function of the histories although several threads write.
template <typename F>
inline uint64_t do_rmw(int id, F f, std::memory_order o)
{
  sched_point();
  if (W->abort_exec && W->in_exec && W->cur != 0) yield_to_main();
  check_access(id, "read-modify-write");
  Loc& L = W->locs[static_cast<size_t>(id)];
  Thread& T = W->th[W->cur];
  int const idx = static_cast<int>(L.mo.size()) - 1;
  Msg const prev = L.mo[static_cast<size_t>(idx)];
  bool const acq = (o == std::memory_order_acquire || o == std::memory_order_seq_cst || o == std::memory_order_acq_rel || o == std::memory_order_consume);
  bool const rel = (o == std::memory_order_release || o == std::memory_order_seq_cst || o == std::memory_order_acq_rel);
  T.view[static_cast<size_t>(id)] = idx;
  if (acq && prev.rel)
  {
    for (size_t k = 0; k < prev.relview.size(); ++k)
      if (prev.relview[k] > T.view[k]) T.view[k] = prev.relview[k];
    T.clk.join(prev.clk);
  }
  T.clk.c[W->cur]++;
  Msg m{f(prev.val), W->cur, T.clk, rel || prev.rel, {}};
  T.view[static_cast<size_t>(id)] = idx + 1;
  if (rel)
  {
    m.relview = T.view;
    for (size_t k = 0; k < prev.relview.size() && prev.rel; ++k)
      if (prev.relview[k] > m.relview[k]) m.relview[k] = prev.relview[k];
    if (prev.rel) m.clk.join(prev.clk);
  }
  else if (prev.rel)
  {
    m.relview = prev.relview; // release sequence carried through a relaxed RMW
    m.clk = prev.clk;
  }
  L.mo.push_back(std::move(m));
  ++T.ops;
  T.last_was_relaxed_load = false;
  T.hist += "r" + std::to_string(id) + ":" + std::to_string(idx) + ";";
  {
    static bool const trace_on = getenv("VF_TRACE") != nullptr;
    if (trace_on) fprintf(stderr, "  t%d rmw L%d read msg %d val %llu -> %llu\n", W->cur, id, idx, static_cast<unsigned long long>(prev.val), static_cast<unsigned long long>(L.mo.back().val));
  }
  return prev.val;
}

inline void block_until_newer(int loc_a, int loc_b);

// spin_candidate: the location has a one-byte enum type (in quill: the spinlock's state) - only there is a repeated identical
// relaxed load taken for an iteration of a spin loop
inline uint64_t do_load(int id, std::memory_order o, bool spin_candidate = false)
{
  if (spin_candidate && W->auto_spin && W->in_exec && W->cur != 0 && o == std::memory_order_relaxed)
  {
    Thread& S = W->th[W->cur];
    if (S.last_was_relaxed_load && S.last_load_id == id && S.view[static_cast<size_t>(id)] == S.last_load_idx && !S.must_progress)
    {
      // second look at the same message with nothing in between: spinning. Wait for a newer message instead of re-reading.
      block_until_newer(id, -1);
      if (W->abort_exec) yield_to_main();
    }
  }
  sched_point();
  if (W->abort_exec && W->in_exec && W->cur != 0) yield_to_main();
  check_access(id, "load");
  Loc& L = W->locs[static_cast<size_t>(id)];
  Thread& T = W->th[W->cur];
  int const lo0 = T.view[static_cast<size_t>(id)];
  int lo = lo0;
  int const hi = static_cast<int>(L.mo.size()) - 1;
  // progress constraint after a wake-up: at the last waited location at least one waited load must read something new
  bool waited = false;
  int slot = -1;
  for (int k = 0; k < 2; ++k)
    if (T.wait_loc[k] == id)
    {
      waited = true;
      slot = k;
    }
  if (T.must_progress && waited && !T.progressed)
  {
    bool const last_waited = (slot == 1) || (T.wait_loc[1] < 0);
    if (last_waited) lo = std::max(lo, T.wait_idx[slot] + 1);
  }
  int idx;
  if (lo > hi)
  {
    // infeasible continuation (equivalent to having waited longer): drop this execution silently
    W->abort_exec = true;
    yield_to_main();
    return 0;
  }
  if (W->latest_only || W->sc_only || W->cur == 0 || T.latest_only)
    idx = hi;
  else
  {
    int const n = hi - lo + 1;
    // choice 0 = the latest message; alternatives = older admissible ones
    int const c = pick(n, false, 0, id, lo);
    if (W->abort_exec)
    {
      yield_to_main();
      return 0;
    }
    idx = hi - c;
    if (c != 0) ++W->deviations;
  }
  if (T.must_progress && waited && idx > T.wait_idx[slot]) T.progressed = true;
  T.view[static_cast<size_t>(id)] = idx;
  Msg const& m = L.mo[static_cast<size_t>(idx)];
  bool const acq = (o == std::memory_order_acquire || o == std::memory_order_seq_cst || o == std::memory_order_acq_rel || o == std::memory_order_consume);
  if (acq && m.rel)
  {
    for (size_t k = 0; k < m.relview.size(); ++k)
      if (m.relview[k] > T.view[k]) T.view[k] = m.relview[k];
    T.clk.join(m.clk);
  }
  T.clk.c[W->cur]++;
  ++T.ops;
  T.last_was_relaxed_load = (o == std::memory_order_relaxed);
  T.last_load_id = id;
  T.last_load_idx = idx;
  if (T.must_progress && W->auto_spin && T.progressed)
  {
    // a wait that was started by the spin / sleep rules ends with the first load that saw something new
    T.must_progress = false;
    T.progressed = false;
    T.wait_loc[0] = T.wait_loc[1] = -1;
  }
  T.hist += std::to_string(id) + ":" + std::to_string(idx) + ";";
  {
    static bool const trace_on = getenv("VF_TRACE") != nullptr;
    if (trace_on) fprintf(stderr, "  t%d load L%d -> msg %d/%d val %llu\n", W->cur, id, idx, hi, static_cast<unsigned long long>(m.val));
  }
  return m.val;
}

// index of the message the current thread last read / wrote at a location
inline int view_of(int id) { return W->th[W->cur].view[static_cast<size_t>(id)]; }

// the calling thread cannot make progress until a message newer than what it has seen exists at one of the locations
inline void block_until_newer(int loc_a, int loc_b = -1);
inline void block_until_newer(int loc_a, int loc_b)
{
  Thread& T = W->th[W->cur];
  T.blocked = true;
  T.wait_loc[0] = loc_a;
  T.wait_idx[0] = T.view[static_cast<size_t>(loc_a)];
  T.wait_loc[1] = loc_b;
  T.wait_idx[1] = loc_b >= 0 ? T.view[static_cast<size_t>(loc_b)] : -1;
  T.hist += "w;";
  {
    static bool const trace_on = getenv("VF_TRACE") != nullptr;
    if (trace_on) fprintf(stderr, "  t%d waits for newer than msg %d at L%d\n", W->cur, T.wait_idx[0], loc_a);
  }
  yield_to_main();
  T.blocked = false;
  T.must_progress = true;
  T.progressed = false;
}
// the calling thread waits for a condition over the other threads' scheduling states
inline void block_on_custom_condition(std::function<bool()> cond)
{
  Thread& T = W->th[W->cur];
  T.custom_wake = std::move(cond);
  T.blocked = true;
  T.custom_wait = true;
  T.hist += "W;";
  yield_to_main();
  T.blocked = false;
  T.custom_wait = false;
}
inline void end_wait_attempt()
{
  Thread& T = W->th[W->cur];
  T.must_progress = false;
  T.progressed = false;
  T.wait_loc[0] = T.wait_loc[1] = -1;
}

inline bool wake_possible(Thread const& T)
{
  if (T.custom_wait) return T.custom_wake && T.custom_wake();
  for (int k = 0; k < 2; ++k)
    if (T.wait_loc[k] >= 0 && static_cast<int>(W->locs[static_cast<size_t>(T.wait_loc[k])].mo.size()) - 1 > T.wait_idx[k]) return true;
  return false;
}
} // namespace wmm

namespace std
{
template <typename T>
class vf_atomic
{
public:
  // construction is initialisation, not an atomic operation: no scheduling point; the initial value is a message that
  // carries the constructing thread's clock, so reading it without happens-before from the construction is detected
  vf_atomic() noexcept : _id(wmm::reg_loc("atomic")), _gen(wmm::W->gen) { wmm::init_loc(_id, 0); }
  vf_atomic(T v) noexcept : _id(wmm::reg_loc("atomic")), _gen(wmm::W->gen) { wmm::init_loc(_id, enc(v)); }
  // (an object that outlives its execution - a process-wide singleton destroyed later - belongs to a world that is gone)
  ~vf_atomic()
  {
    if (wmm::W && wmm::W->gen == _gen) wmm::W->locs[static_cast<size_t>(_id)].dead = true;
  }
  vf_atomic(vf_atomic const&) = delete;
  vf_atomic& operator=(vf_atomic const&) = delete;
  // an operation through a pointer to an atomic that no longer exists (dead stack frame, object of an earlier execution)
  bool stale(char const* op) const noexcept
  {
    if (wmm::W && _gen == wmm::W->gen && _id >= 0 && static_cast<size_t>(_id) < wmm::W->locs.size()) return false;
    if (wmm::W) wmm::fail("stale-atomic-accessed", std::string(op) + " through a pointer to an atomic object that does not exist (any more)");
    return true;
  }
  void store(T v, std::memory_order o = std::memory_order_seq_cst) noexcept
  {
    if (stale("store")) return;
    wmm::do_store(_id, enc(v), o);
  }
  T load(std::memory_order o = std::memory_order_seq_cst) const noexcept
  {
    if (stale("load")) return T{};
    return dec(wmm::do_load(_id, o, std::is_enum<T>::value && sizeof(T) == 1));
  }
  operator T() const noexcept { return load(); }
  T exchange(T v, std::memory_order o = std::memory_order_seq_cst) noexcept
  {
    uint64_t const nv = enc(v);
    return dec(wmm::do_rmw(_id, [nv](uint64_t) { return nv; }, o));
  }
  template <typename U = T>
  T fetch_add(U d, std::memory_order o = std::memory_order_seq_cst) noexcept
  {
    return dec(wmm::do_rmw(_id, [d](uint64_t old) { return enc(static_cast<T>(dec(old) + static_cast<T>(d))); }, o));
  }
  template <typename U = T>
  T fetch_sub(U d, std::memory_order o = std::memory_order_seq_cst) noexcept
  {
    return dec(wmm::do_rmw(_id, [d](uint64_t old) { return enc(static_cast<T>(dec(old) - static_cast<T>(d))); }, o));
  }
  int vf_id() const { return _id; }

private:
  static uint64_t enc(T v)
  {
    uint64_t r = 0;
    static_assert(sizeof(T) <= 8, "shim supports values up to 8 bytes");
    memcpy(&r, &v, sizeof(T));
    return r;
  }
  static T dec(uint64_t r)
  {
    T v;
    memcpy(&v, &r, sizeof(T));
    return v;
  }
  int _id;
  int _gen;
};
} // namespace std
