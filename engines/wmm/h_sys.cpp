// Whole-system variant of the Engine A explorer: the same explorer, allocation monitor and shim as h_queues.cpp, with the
// real frontend (ScopedThreadContext, LoggerImpl::log_statement) and the real BackendWorker compiled against the shim, and
// room for a second frontend thread.
#define VF_SYS 1
#define VF_MAXT 4
#include "h_queues.cpp"
