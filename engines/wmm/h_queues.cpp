// Engine A harness: the real BoundedSPSCQueueImpl<T> (C01) and UnboundedSPSCQueue (C02) under the wmm explorer, plus the
// drained-state liveness probe (C09, queue level).
//
// argv: --mode bounded|unbounded --itype u8|u16|u64 --cap N --percent P --preset 0|1 --sizes "a,b,c" [--shrinks ..]
//       --initial N --max N --ops "w8,w20,s8,w4" --max-exec N --deadline S [--replay "c,c,c"]
#include "quill/core/Attributes.h"
#include "quill/core/Common.h"
#include "quill/core/MathUtilities.h"
#include "quill/core/QuillError.h"

#include <algorithm>
#include <atomic>
#include <cassert>
#include <cerrno>
#include <cstddef>
#include <cstdint>
#include <cstring>
#include <ctime>
#include <map>
#include <new>
#include <string>
#include <sys/mman.h>
#include <sys/syscall.h>
#include <unistd.h>
#include <vector>

#include "vf_atomic.h"
#include "vf_out.h"

// every standard header the quill headers below pull in is included before the token is redefined
#include <algorithm>
#include <atomic>
#include <cassert>
#include <cctype>
#include <cerrno>
#include <chrono>
#include <cstddef>
#include <cstdint>
#include <cstdlib>
#include <cstring>
#include <ctime>
#include <exception>
#include <initializer_list>
#include <limits>
#include <memory>
#include <string_view>
#include <type_traits>
#include <x86intrin.h>

#ifdef VF_SYS
// whole-system variant (h_sys.cpp): the real frontend and backend classes are compiled against the shim as well
#include <array>
#include <climits>
#include <cmath>
#include <condition_variable>
#include <csignal>
#include <cstdarg>
#include <cstdio>
#include <cwchar>
#include <deque>
#include <filesystem>
#include <iostream>
#include <iterator>
#include <list>
#include <locale>
#include <map>
#include <mutex>
#include <optional>
#include <set>
#include <sstream>
#include <stdexcept>
#include <system_error>
#include <thread>
#include <tuple>
#include <typeinfo>
#include <unordered_map>
#include <utility>
#include <variant>
#endif

#define atomic vf_atomic
#include "quill/core/BoundedSPSCQueue.h"
#include "quill/core/UnboundedSPSCQueue.h"
#ifdef VF_SYS
// ScopedThreadContext asserts "one instance per OS thread" in debug builds; the virtual threads of an exploration share one
// OS thread and every execution creates its own contexts: that one header is compiled without its asserts
#define NDEBUG
#include <cassert>
#include "quill/core/ThreadContextManager.h"
#undef NDEBUG
#include <cassert>
#include "quill/Frontend.h"
#include "quill/Logger.h"
#include "quill/backend/BackendWorker.h"
#include "quill/sinks/Sink.h"
#else
#include "quill/core/ThreadContextManager.h"
#endif
#undef atomic
#ifndef VF_SYS
#include "quill/backend/ThreadUtilities.h" // get_thread_id / get_thread_name used by the ThreadContext constructor
#endif

namespace wmm
{
World* W = nullptr;
std::unordered_set<uint64_t> g_visited;
int g_no_record = 0;
unsigned long long g_pruned = 0;
} // namespace wmm
using namespace wmm;

// ------------------------------------------------------------------------------------------------------------
// memory: nothing the code under test frees is really released before the execution ends (so that an access to a retired
// node / buffer is detected by the monitors instead of corrupting the explorer); mmap'ed buffers are tracked per byte

struct Region
{
  unsigned char* base;
  size_t len;
  bool dead{false};
  std::vector<int8_t> w_tid;
  std::vector<uint32_t> w_clk;
  std::vector<uint32_t> r_clk; // [byte * MAXT + t]
};
static std::vector<Region> g_regions;
static std::pair<void*, size_t> g_deferred_unmap[256];
static size_t g_deferred_unmap_n = 0;
static void* g_deferred_free[1 << 14];
static size_t g_deferred_free_n = 0;
static size_t g_live_mapped = 0, g_max_mapped_len = 0, g_max_live_mapped = 0;
static bool g_track = false;
// what the harness bodies and the code under test allocate during one execution (on a coroutine, or in setup()): an
// execution that is cut at a known state abandons its coroutines, and whatever their frames or the never-destroyed queue
// still own is reclaimed here when the execution is over (without this a long exploration leaks ~7 KB per cut execution)
static void* g_exec_allocs[1 << 15];
static size_t g_exec_allocs_n = 0;
static bool g_record_main = false;
static inline void record_alloc(void* p)
{
  if (g_track && W && !g_no_record && ((W->in_exec && W->cur != 0) || g_record_main) && g_exec_allocs_n < (1u << 15)) g_exec_allocs[g_exec_allocs_n++] = p;
}
static inline void forget_alloc(void* p)
{
  for (size_t i = g_exec_allocs_n; i-- > 0;)
    if (g_exec_allocs[i] == p)
    {
      g_exec_allocs[i] = nullptr;
      if (i + 1 == g_exec_allocs_n) --g_exec_allocs_n;
      return;
    }
}

extern "C" void* mmap(void* addr, size_t len, int prot, int flags, int fd, off_t off)
{
  void* p = reinterpret_cast<void*>(syscall(SYS_mmap, addr, len, prot, flags, fd, off));
  if (g_track && p != MAP_FAILED)
  {
    Region r;
    r.base = static_cast<unsigned char*>(p);
    r.len = len;
    r.w_tid.assign(len, -1);
    r.w_clk.assign(len, 0);
    r.r_clk.assign(len * MAXT, 0);
    g_regions.push_back(std::move(r));
    g_live_mapped += len;
    g_max_mapped_len = std::max(g_max_mapped_len, len);
    g_max_live_mapped = std::max(g_max_live_mapped, g_live_mapped);
  }
  return p;
}
extern "C" int munmap(void* addr, size_t len)
{
  if (g_track)
  {
    for (auto& r : g_regions)
      if (r.base == addr && !r.dead)
      {
        r.dead = true;
        g_live_mapped -= r.len;
      }
    if (g_deferred_unmap_n < 256) g_deferred_unmap[g_deferred_unmap_n++] = {addr, len};
    return 0;
  }
  return static_cast<int>(syscall(SYS_munmap, addr, len));
}
void* operator new(size_t n)
{
  void* p = malloc(n ? n : 1);
  if (!p) throw std::bad_alloc{};
  record_alloc(p);
  return p;
}
void* operator new(size_t n, std::align_val_t al)
{
  void* p = nullptr;
  if (posix_memalign(&p, static_cast<size_t>(al) < sizeof(void*) ? sizeof(void*) : static_cast<size_t>(al), n ? n : 1) != 0) throw std::bad_alloc{};
  record_alloc(p);
  return p;
}
static void vf_delete(void* p)
{
  if (!p) return;
  forget_alloc(p);
  if (g_track && W && W->in_exec && W->cur != 0 && g_deferred_free_n < (1u << 14))
    g_deferred_free[g_deferred_free_n++] = p; // freed on a coroutine (possibly by the code under test): quarantine until the execution ends
  else if (g_track && W && W->in_exec && W->cur != 0)
    ; // quarantine full: leak rather than recycle memory the code under test might still (wrongly) touch
  else
    free(p);
}
void operator delete(void* p) noexcept { vf_delete(p); }
void operator delete(void* p, size_t) noexcept { vf_delete(p); }
void operator delete(void* p, std::align_val_t) noexcept { vf_delete(p); }
void operator delete(void* p, size_t, std::align_val_t) noexcept { vf_delete(p); }

static void release_deferred()
{
  for (size_t i = 0; i < g_deferred_unmap_n; ++i) syscall(SYS_munmap, g_deferred_unmap[i].first, g_deferred_unmap[i].second);
  g_deferred_unmap_n = 0;
  for (size_t i = 0; i < g_deferred_free_n; ++i) free(g_deferred_free[i]);
  g_deferred_free_n = 0;
  // buffers the (cut) execution never unmapped, allocations its abandoned frames / never-destroyed queue still own
  for (auto const& r : g_regions)
    if (!r.dead) syscall(SYS_munmap, r.base, r.len);
  std::vector<Region>().swap(g_regions); // its own storage may have grown on a coroutine: give it back before the sweep
  g_live_mapped = 0;
  for (size_t i = 0; i < g_exec_allocs_n; ++i)
    if (g_exec_allocs[i]) free(g_exec_allocs[i]);
  g_exec_allocs_n = 0;
}

static Region* region_of(void const* p)
{
  auto const* b = static_cast<unsigned char const*>(p);
  for (auto& r : g_regions)
    if (b >= r.base && b < r.base + r.len) return &r;
  return nullptr;
}

// payload accesses of the harness: checked against happens-before, independent of the values in memory
static void write_range(void* p, size_t n)
{
  Region* r = region_of(p);
  Thread& T = W->th[W->cur];
  if (!r || static_cast<unsigned char*>(p) + n > r->base + r->len)
  {
    fail("reservation-outside-buffer", "write of " + std::to_string(n) + " bytes is not inside a queue buffer");
    return;
  }
  if (r->dead)
  {
    fail("retired-buffer-accessed", "producer writes into a buffer that was already freed");
    return;
  }
  size_t const off = static_cast<size_t>(static_cast<unsigned char*>(p) - r->base);
  for (size_t i = off; i < off + n; ++i)
  {
    if (r->w_tid[i] >= 0 && r->w_tid[i] != W->cur && r->w_clk[i] > T.clk.c[r->w_tid[i]])
    {
      fail("data-race-on-payload", "write/write race on a payload byte");
      return;
    }
    for (int t = 0; t < MAXT; ++t)
      if (t != W->cur && r->r_clk[i * MAXT + static_cast<size_t>(t)] > T.clk.c[t])
      {
        fail("overwritten-before-release", "producer overwrites a byte the consumer has read without that read happening-before the write (not released yet)");
        return;
      }
    r->w_tid[i] = static_cast<int8_t>(W->cur);
    r->w_clk[i] = T.clk.c[W->cur];
  }
}
static void read_range(void const* p, size_t n)
{
  Region* r = region_of(p);
  Thread& T = W->th[W->cur];
  if (!r || static_cast<unsigned char const*>(p) + n > r->base + r->len)
  {
    fail("read-outside-buffer", "read of " + std::to_string(n) + " bytes is not inside a queue buffer");
    return;
  }
  if (r->dead)
  {
    fail("retired-buffer-accessed", "consumer reads from a buffer that was already freed");
    return;
  }
  size_t const off = static_cast<size_t>(static_cast<unsigned char const*>(p) - r->base);
  for (size_t i = off; i < off + n; ++i)
  {
    if (r->w_tid[i] >= 0 && r->w_tid[i] != W->cur && r->w_clk[i] > T.clk.c[r->w_tid[i]])
    {
      fail("visible-before-commit", "consumer reads a payload byte whose write does not happen-before the read (torn / not committed yet)");
      return;
    }
    r->r_clk[i * MAXT + static_cast<size_t>(W->cur)] = T.clk.c[W->cur];
  }
}

// ------------------------------------------------------------------------------------------------------------
// configuration and scripts

struct POp
{
  char kind; // 'w' write n, 's' shrink c
  size_t n;
};
struct Cfg
{
  std::string mode{"bounded"}, itype{"u8"};
  size_t cap{8}, percent{5}, initial{8}, maxcap{32};
  size_t rawcap{0}; // bounded: the value handed to the constructor when it is not a power of two (cap = what it rounds up to)
  bool preset{false};
  std::vector<POp> ops;
  bool probe{true};
  bool sc{false};
  size_t passes{2}, extra{0};
  std::string runloop; // "" = P polls then on-demand polls; else the backend thread's run loop with this memory order
  std::vector<POp> ops2; // second frontend thread (whole-system variant)
};
static Cfg g_cfg;
static size_t g_blocked_request = 0; // size of the reservation a blocked producer is waiting for
static std::vector<std::string> g_recv_log;

// byte k of record i of size n
static unsigned char pattern(size_t i, size_t k, size_t n)
{
  if (k == 0) return static_cast<unsigned char>(n);
  return static_cast<unsigned char>(17 * i + 3 * k + 1);
}

template <typename QT>
struct BoundedHarness
{
  using IT = typename QT::integer_type;
  QT* q{nullptr};
  size_t produced{0}, consumed_records{0};
  std::vector<size_t> accepted; // sizes of records the producer committed, in order
  bool producer_done{false};
  unsigned stalls{0};

  void setup()
  {
    q = new QT(static_cast<IT>(g_cfg.rawcap ? g_cfg.rawcap : g_cfg.cap), quill::HugePagesPolicy::Never, static_cast<IT>(g_cfg.percent));
    if (static_cast<size_t>(q->capacity()) != g_cfg.cap)
      fail("capacity-not-rounded-to-power-of-two", "constructed with " + std::to_string(g_cfg.rawcap ? g_cfg.rawcap : g_cfg.cap) + ", capacity() is " + std::to_string(q->capacity()) + ", expected " + std::to_string(g_cfg.cap));
    if (g_cfg.preset)
    {
      // carry the free-running position counters through integer wrap-around
      IT const start = static_cast<IT>(static_cast<IT>(~IT{0}) - static_cast<IT>(g_cfg.cap / 2) + 1);
      q->_writer_pos = q->_reader_pos_cache = q->_reader_pos = q->_writer_pos_cache = start;
      q->_atomic_writer_pos.store(start, std::memory_order_relaxed);
      q->_atomic_reader_pos.store(start, std::memory_order_relaxed);
    }
  }

  void check_reservation(std::byte* p, size_t n)
  {
    if (n > g_cfg.cap)
    {
      fail("oversize-reservation-granted", "prepare_write(" + std::to_string(n) + ") granted on capacity " + std::to_string(g_cfg.cap));
      return;
    }
    auto* base = reinterpret_cast<unsigned char*>(q->_storage);
    auto* pp = reinterpret_cast<unsigned char*>(p);
    if (pp < base || pp + n > base + 2 * g_cfg.cap)
    {
      fail("reservation-not-contiguous", "reserved range leaves the 2*capacity buffer");
      return;
    }
    // space: writer_pos + n - (reader position whose release the producer has acquired) <= capacity
    int const rid = q->_atomic_reader_pos.vf_id();
    IT const acquired = static_cast<IT>(W->locs[static_cast<size_t>(rid)].mo[static_cast<size_t>(view_of(rid))].val);
    IT const used = static_cast<IT>(static_cast<IT>(q->_writer_pos - acquired) + static_cast<IT>(n));
    if (static_cast<size_t>(used) > g_cfg.cap)
      fail("reservation-exceeds-released-space", "granted " + std::to_string(n) + " bytes with " + std::to_string(static_cast<size_t>(static_cast<IT>(q->_writer_pos - acquired))) +
                                                   " bytes not yet released by the consumer (capacity " + std::to_string(g_cfg.cap) + ")");
  }

  // records the producer has published (commit_write): a batching producer (op b = finish_write only) publishes later
  size_t committed_count{0};
  bool pending{false};
  void commit_pending()
  {
    committed_count = accepted.size();
    q->commit_write();
    pending = false;
  }
  void producer()
  {
    for (size_t i = 0; i < g_cfg.ops.size(); ++i)
    {
      size_t const n = g_cfg.ops[i].n;
      bool const batch = g_cfg.ops[i].kind == 'b';
      std::byte* p = nullptr;
      bool first = true;
      while (true)
      {
        p = q->prepare_write(static_cast<IT>(n));
        if (!first) end_wait_attempt();
        if (p || n > g_cfg.cap || W->abort_exec) break;
        first = false;
        // refused: what was finished so far is committed before waiting for room (nobody could free it otherwise) - but not
        // in the same breath: the consumer may run between the refusal and that commit and must not see the batch yet
        if (pending)
        {
          sched_point();
          if (W->abort_exec) return;
          commit_pending();
        }
        if (W->abort_exec) return;
        g_blocked_request = n;
        block_until_newer(q->_atomic_reader_pos.vf_id());
        g_blocked_request = 0;
        if (W->abort_exec) return;
      }
      if (W->abort_exec) return;
      if (!p) continue; // n > capacity: correctly refused
      check_reservation(p, n);
      write_range(p, n);
      if (W->abort_exec) return;
      for (size_t k = 0; k < n; ++k) reinterpret_cast<unsigned char*>(p)[k] = pattern(accepted.size(), k, n);
      accepted.push_back(n);
      if (batch)
      {
        q->finish_write(static_cast<IT>(n));
        pending = true;
      }
      else if (i % 2 == 0)
      {
        q->finish_write(static_cast<IT>(n));
        commit_pending();
      }
      else
      {
        committed_count = accepted.size();
        pending = false;
        q->finish_and_commit_write(static_cast<IT>(n));
      }
      if (W->abort_exec) return;
    }
    if (pending) commit_pending();
    producer_done = true;
  }

  size_t expected_total() const
  {
    size_t t = 0;
    for (auto const& o : g_cfg.ops)
      if (o.n <= g_cfg.cap) ++t;
    return t;
  }

  void consumer()
  {
    size_t const total = expected_total();
    bool waited = false;
    while (consumed_records < total)
    {
      // one pass, shaped like BackendWorker::_read_and_decode_frontend_queue: read until the queue looks empty or one
      // capacity worth of bytes was read, then commit once
      size_t bytes = 0;
      do
      {
        std::byte* p = q->prepare_read();
        if (waited)
        {
          end_wait_attempt();
          waited = false;
        }
        if (W->abort_exec) return;
        if (!p) break;
        read_range(p, 1);
        if (W->abort_exec) return;
        size_t const n = reinterpret_cast<unsigned char*>(p)[0];
        // the producer's `accepted` list is harness bookkeeping (not shared memory of the code under test)
        if (consumed_records >= accepted.size() || n != accepted[consumed_records] || n == 0)
        {
          fail("record-not-in-committed-stream", "consumer found a record of length " + std::to_string(n) + " at position " + std::to_string(consumed_records) +
                                                   " but the producer committed " + (consumed_records < accepted.size() ? std::to_string(accepted[consumed_records]) : std::string("nothing")));
          return;
        }
        if (consumed_records >= committed_count)
        {
          fail("visible-before-commit", "the consumer was handed record " + std::to_string(consumed_records) + " which the producer has finished but not committed (" +
                                          std::to_string(committed_count) + " records committed so far)");
          return;
        }
        read_range(p, n);
        if (W->abort_exec) return;
        for (size_t k = 0; k < n; ++k)
          if (reinterpret_cast<unsigned char*>(p)[k] != pattern(consumed_records, k, n))
          {
            fail("record-corrupted", "byte " + std::to_string(k) + " of record " + std::to_string(consumed_records) + " differs from what was committed");
            return;
          }
        q->finish_read(static_cast<IT>(n));
        bytes += n;
        ++consumed_records;
      } while (bytes < g_cfg.cap);
      if (W->abort_exec) return;
      if (bytes != 0)
        q->commit_read();
      else
      {
        block_until_newer(q->_atomic_writer_pos.vf_id());
        waited = true;
      }
      if (W->abort_exec) return;
    }
    // final pass of the backend: it sees the queue empty (reading the latest writer position) and commits
  }

  // C09 at queue level: everything consumed, consumer's last pass saw the queue empty -> every n <= capacity is granted
  void probe()
  {
    W->latest_only = true;
    W->cur = 2;
    std::byte* p = q->prepare_read();
    if (p) fail("harness-error", "queue not empty at the end");
    // the pass that ends on an empty queue commits what it read (if it read anything the consumer script already did)
    W->cur = 1;
    for (size_t n = 1; n <= g_cfg.cap && !W->violation; ++n)
    {
      std::byte* w = q->prepare_write(static_cast<IT>(n));
      if (!w)
      {
        ++stalls;
        fail("stall-on-empty-queue", "queue drained and consumer idle, prepare_write(" + std::to_string(n) + ") on capacity " + std::to_string(g_cfg.cap) +
                                       " is refused (consumed bytes below the publish batch were never published)");
      }
    }
    W->cur = 0;
    W->latest_only = false;
  }
  void teardown() { delete q; }
};

// ------------------------------------------------------------------------------------------------------------
// unbounded

struct UnboundedHarness
{
  quill::detail::UnboundedSPSCQueue* q{nullptr};
  std::vector<size_t> accepted;
  size_t consumed_records{0};
  std::vector<std::pair<size_t, size_t>> switches; // reported (previous, new) capacities
  unsigned stalls{0};
  size_t expected_refused{0};

  void setup() { q = new quill::detail::UnboundedSPSCQueue(g_cfg.initial, g_cfg.maxcap); }

  void producer()
  {
    for (size_t i = 0; i < g_cfg.ops.size(); ++i)
    {
      POp const& op = g_cfg.ops[i];
      if (op.kind == 's')
      {
        // (shrink() leaves the current buffer without committing what was finished there - unlike growth - so a batching
        // producer commits first; the logger commits every record anyway)
        if (pending)
        {
          q->commit_write();
          pending = false;
          if (W->abort_exec) return;
        }
        size_t const before = q->_producer->bounded_queue.capacity();
        q->shrink(op.n);
        if (W->abort_exec) return;
        size_t const after = q->_producer->bounded_queue.capacity();
        if (after > before)
          fail("shrink-grew-the-queue", "shrink(" + std::to_string(op.n) + ") moved the producer from a buffer of " + std::to_string(before) + " to one of " + std::to_string(after) + " bytes");
        else if (after > g_cfg.maxcap && quill::detail::is_power_of_two(g_cfg.maxcap))
          fail("allocated-beyond-maximum", "after shrink(" + std::to_string(op.n) + ") the producer's buffer has " + std::to_string(after) + " bytes, maximum is " + std::to_string(g_cfg.maxcap));
        if (W->abort_exec) return;
        continue;
      }
      size_t const n = op.n;
      std::byte* p = nullptr;
      bool threw = false, first = true;
      void const* const node_before = q->_producer;
      size_t const cap_before = q->_producer->bounded_queue.capacity();
      while (true)
      {
        try
        {
          p = q->prepare_write(n);
        }
        catch (quill::QuillError const&)
        {
          threw = true;
        }
        if (!first) end_wait_attempt();
        if (p || threw || W->abort_exec) break;
        if (n > g_cfg.maxcap)
        {
          // "a record larger than the maximum is rejected with an error" - in every state of the queue; a plain refusal
          // would leave a blocking caller waiting for room that can never appear
          fail("oversize-record-refused-without-error", "prepare_write(" + std::to_string(n) + ") returned null instead of throwing although the maximum capacity is " +
                                                          std::to_string(g_cfg.maxcap) + " (producer buffer: " + std::to_string(cap_before) + " bytes)");
          return;
        }
        // refused: growing would exceed the maximum -> the caller blocks until the consumer made room
        first = false;
        if (pending)
        {
          q->commit_write();
          pending = false;
          if (W->abort_exec) return;
        }
        g_blocked_request = n;
        block_until_newer(q->_producer->bounded_queue._atomic_reader_pos.vf_id());
        g_blocked_request = 0;
        if (W->abort_exec) return;
      }
      if (W->abort_exec) return;
      if (threw)
      {
        if (n <= g_cfg.maxcap) fail("fitting-record-rejected-with-error", "prepare_write(" + std::to_string(n) + ") threw although max capacity is " + std::to_string(g_cfg.maxcap));
        continue;
      }
      if (n > g_cfg.maxcap)
      {
        fail("oversize-record-accepted", "prepare_write(" + std::to_string(n) + ") granted although max capacity is " + std::to_string(g_cfg.maxcap));
        return;
      }
      if (q->_producer != node_before && q->_producer->bounded_queue.capacity() <= cap_before)
      {
        // the queue grows by moving the producer to a LARGER buffer; at the maximum the reservation has to fail instead.
        // Linking one more buffer of the same (or a smaller) size lets the memory of a queue whose consumer lags grow
        // without bound while every single buffer stays within the maximum
        fail("grew-without-a-larger-buffer", "prepare_write(" + std::to_string(n) + ") moved the producer from a buffer of " + std::to_string(cap_before) +
                                               " bytes to another one of " + std::to_string(q->_producer->bounded_queue.capacity()) + " bytes (maximum " + std::to_string(g_cfg.maxcap) + ")");
        return;
      }
      if (q->_producer->bounded_queue.capacity() > g_cfg.maxcap && quill::detail::is_power_of_two(g_cfg.maxcap))
      {
        fail("allocated-beyond-maximum", "a node of capacity " + std::to_string(q->_producer->bounded_queue.capacity()) + " was allocated, maximum is " + std::to_string(g_cfg.maxcap));
        return;
      }
      write_range(p, n);
      if (W->abort_exec) return;
      for (size_t k = 0; k < n; ++k) reinterpret_cast<unsigned char*>(p)[k] = pattern(accepted.size(), k, n);
      accepted.push_back(n);
      if (op.kind == 'b')
      {
        // batching producer: finished, committed later (by a commit, or by the queue itself when it switches buffers)
        q->finish_write(n);
        pending = true;
      }
      else
      {
        q->finish_and_commit_write(n);
        pending = false;
      }
      if (W->abort_exec) return;
    }
    if (pending) q->commit_write();
  }
  bool pending{false};

  size_t expected_total() const
  {
    size_t t = 0;
    for (auto const& o : g_cfg.ops)
      if ((o.kind == 'w' || o.kind == 'b') && o.n <= g_cfg.maxcap) ++t;
    return t;
  }

  void consumer()
  {
    size_t const total = expected_total();
    bool waited = false;
    while (consumed_records < total)
    {
      size_t bytes = 0;
      size_t const pass_cap = q->capacity();
      do
      {
        auto rr = q->prepare_read();
        if (waited)
        {
          end_wait_attempt();
          waited = false;
        }
        if (W->abort_exec) return;
        if (rr.allocation) switches.emplace_back(rr.previous_capacity, rr.new_capacity);
        std::byte* p = rr.read_pos;
        if (!p) break;
        read_range(p, 1);
        if (W->abort_exec) return;
        size_t const n = reinterpret_cast<unsigned char*>(p)[0];
        if (consumed_records >= accepted.size() || n != accepted[consumed_records] || n == 0)
        {
          fail("record-not-in-committed-stream", "consumer found a record of length " + std::to_string(n) + " at position " + std::to_string(consumed_records) +
                                                   " but the producer committed " + (consumed_records < accepted.size() ? std::to_string(accepted[consumed_records]) : std::string("nothing")) +
                                                   " (old buffer must be finished before the new one; nothing may be skipped)");
          return;
        }
        read_range(p, n);
        if (W->abort_exec) return;
        for (size_t k = 0; k < n; ++k)
          if (reinterpret_cast<unsigned char*>(p)[k] != pattern(consumed_records, k, n))
          {
            fail("record-corrupted", "byte " + std::to_string(k) + " of record " + std::to_string(consumed_records) + " differs from what was committed");
            return;
          }
        q->finish_read(n);
        bytes += n;
        ++consumed_records;
      } while (bytes < pass_cap);
      if (W->abort_exec) return;
      if (bytes != 0)
        q->commit_read();
      else
      {
        block_until_newer(q->_consumer->bounded_queue._atomic_writer_pos.vf_id(), q->_consumer->next.vf_id());
        waited = true;
      }
      if (W->abort_exec) return;
    }
  }

  void probe()
  {
    W->latest_only = true;
    // let the consumer follow every pending switch (shrink nodes without data) and see the queue empty
    W->cur = 2;
    for (int i = 0; i < 8; ++i)
    {
      auto rr = q->prepare_read();
      if (rr.allocation) switches.emplace_back(rr.previous_capacity, rr.new_capacity);
      if (rr.read_pos)
      {
        fail("harness-error", "queue not empty at the end");
        break;
      }
    }
    if (!q->empty()) fail("not-empty-after-drain", "empty() is false although every committed record was consumed");
    // exactly one node is live after the drain
    size_t live = 0;
    for (auto const& r : g_regions)
      if (!r.dead) ++live;
    if (live != 1 && !W->violation) fail("retired-buffers-not-freed", std::to_string(live) + " queue buffers are still mapped after the consumer drained everything");
    // every switch goes to the capacity the producer created, in order
    W->cur = 1;
    for (size_t n = 1; n <= g_cfg.maxcap && !W->violation; n += (n < 8 ? 1 : (g_cfg.maxcap > 64 ? 7 : 3)))
    {
      std::byte* w = nullptr;
      try
      {
        w = q->prepare_write(n);
      }
      catch (quill::QuillError const&)
      {
      }
      if (!w)
      {
        ++stalls;
        bool const pow2 = quill::detail::is_power_of_two(g_cfg.maxcap);
        size_t largest_pow2 = 1;
        while (largest_pow2 * 2 <= g_cfg.maxcap) largest_pow2 *= 2;
        if (!pow2 && n > largest_pow2)
          fail("stall-on-empty-queue-nonpow2", "queue drained, prepare_write(" + std::to_string(n) + ") refused: max capacity " + std::to_string(g_cfg.maxcap) +
                                                 " is not a power of two and doubling overshoots it");
        else
          fail("stall-on-empty-queue", "queue drained and consumer idle, prepare_write(" + std::to_string(n) + ") with max capacity " + std::to_string(g_cfg.maxcap) + " is refused");
      }
      else
      {
        // do not keep the probe reservation: nothing was finished/committed, the next probe starts from the same state
      }
    }
    W->cur = 0;
    W->latest_only = false;
  }
  void teardown() { delete q; }
};

// ------------------------------------------------------------------------------------------------------------
// explorer

static std::function<void()> g_body[MAXT];
static std::function<void(int)> g_on_switch; // harness hook run before a virtual thread is resumed
template <typename H, typename = void>
struct has_producer2 : std::false_type
{
};
template <typename H>
struct has_producer2<H, std::void_t<decltype(&H::producer2)>> : std::true_type
{
};
template <typename H, typename = void>
struct has_on_switch : std::false_type
{
};
template <typename H>
struct has_on_switch<H, std::void_t<decltype(&H::on_switch)>> : std::true_type
{
};
static void tramp()
{
  int const me = W->cur;
  g_body[me]();
  W->th[me].finished = true;
  swapcontext(&W->th[me].ctx, &W->main_ctx);
}

#ifdef VF_SYS
static constexpr size_t STACK = 2 * 1024 * 1024;
#else
static constexpr size_t STACK = 256 * 1024;
#endif
static char* g_stacks[MAXT] = {};

// ------------------------------------------------------------------------------------------------------------
// C08 (drop counter): the real ThreadContext::increment_failure_counter (frontend side of a dropped statement) against the
// real ThreadContext::get_and_reset_failure_counter (backend's report), at the granularity of their atomic operations:
// what the reports add up to, plus what is left when both sides are done, must equal the number of increments.
// ops: iN = the producer increments N times; gM = the consumer fetches M times
struct CounterHarness
{
  quill::detail::ThreadContext* ctx{nullptr};
  size_t incs{0}, gets{0}, reported{0};
  unsigned stalls{0};
  void setup()
  {
    W->allow_unordered_writers = true;
    for (auto const& o : g_cfg.ops)
      (o.kind == 'i' ? incs : gets) += o.n;
    ctx = new quill::detail::ThreadContext(quill::QueueType::BoundedDropping, 64, 64, quill::HugePagesPolicy::Never);
  }
  void producer()
  {
    for (size_t i = 0; i < incs; ++i) ctx->increment_failure_counter();
  }
  void consumer()
  {
    for (size_t i = 0; i < gets; ++i) reported += ctx->get_and_reset_failure_counter();
  }
  void probe()
  {
    // both threads joined: the next report picks up the rest
    size_t const rest = ctx->get_and_reset_failure_counter();
    if (reported + rest != incs)
      fail("drop-count-lost-update", "the reports add up to " + std::to_string(reported) + " + " + std::to_string(rest) + " left, " + std::to_string(incs) + " statements were counted as dropped");
    if (ctx->get_and_reset_failure_counter() != 0) fail("drop-count-not-reset", "a second report right after the first is not zero");
  }
  void teardown() { delete ctx; }
};

#ifdef VF_SYS
// ------------------------------------------------------------------------------------------------------------
// Whole-system harness (C03 / C06 / C20 below Engine B's granularity): one virtual frontend thread running the REAL
// thread-context registration (ScopedThreadContext), the REAL LoggerImpl::log_statement and the REAL thread exit, against
// the REAL BackendWorker::_poll() on the other virtual thread, interleaved at every atomic operation either side performs
// (spinlock, new-context flag, queue positions, validity flag, invalid-context counter, ...), with every load value the
// C++11 model admits (or, --sc 1, the latest value only).
// ops (frontend script): r = first use (register), lN = log statement N, x = thread exit; --passes P backend polls.
// Process-wide singletons are re-created in place for every execution; what the previous one owned was allocated during
// that execution and has been reclaimed with it.
struct SysOpt
{
  static constexpr quill::QueueType queue_type = quill::QueueType::UnboundedBlocking;
  static constexpr size_t initial_queue_capacity = 128;
  static constexpr uint32_t blocking_queue_retry_interval_ns = 800;
  static constexpr size_t unbounded_queue_max_capacity = 256;
  static constexpr quill::HugePagesPolicy huge_pages_policy = quill::HugePagesPolicy::Never;
};
struct SysOptBB
{
  static constexpr quill::QueueType queue_type = quill::QueueType::BoundedBlocking;
  static constexpr size_t initial_queue_capacity = 128;
  static constexpr uint32_t blocking_queue_retry_interval_ns = 800;
  static constexpr size_t unbounded_queue_max_capacity = 128;
  static constexpr quill::HugePagesPolicy huge_pages_policy = quill::HugePagesPolicy::Never;
};
struct SysOptBD
{
  static constexpr quill::QueueType queue_type = quill::QueueType::BoundedDropping;
  static constexpr size_t initial_queue_capacity = 128;
  static constexpr uint32_t blocking_queue_retry_interval_ns = 800;
  static constexpr size_t unbounded_queue_max_capacity = 128;
  static constexpr quill::HugePagesPolicy huge_pages_policy = quill::HugePagesPolicy::Never;
};
static std::vector<std::string>* g_sys_recs = nullptr;
static std::vector<std::string>* g_sys_notes = nullptr;
struct SysSink : public quill::Sink
{
  explicit SysSink(int id) : _id(id) {}
  ~SysSink() override
  {
    if (g_sys_recs) g_sys_recs->push_back("destroyed:" + std::to_string(_id));
  }
  int _id;
  void write_log(quill::MacroMetadata const*, uint64_t, std::string_view, std::string_view, std::string const&, std::string_view, quill::LogLevel,
                 std::string_view, std::string_view, std::vector<std::pair<std::string, std::string>> const*, std::string_view msg,
                 std::string_view) override
  {
    g_sys_recs->push_back(std::to_string(_id) + ":" + std::string(msg));
  }
  void flush_sink() override {}
};
// per virtual thread clock: a function of the thread's own history (keeps the history-based state key exact)
static uint64_t g_sys_clock[MAXT];
extern "C" int clock_gettime(clockid_t id, struct timespec* ts)
{
  if (!W || !W->in_exec) return static_cast<int>(syscall(SYS_clock_gettime, id, ts));
  uint64_t const t = 1718451898000000000ull + 1000ull * (++g_sys_clock[W->cur]) + static_cast<uint64_t>(W->cur);
  ts->tv_sec = static_cast<time_t>(t / 1000000000ull);
  ts->tv_nsec = static_cast<long>(t % 1000000000ull);
  return 0;
}
// a sleeping / yielding virtual thread waits for a newer message at the location it looked at last (retry loops of
// blocking log calls, flush_log, remove_logger_blocking)
static int sys_wait()
{
  if (W && W->in_exec && W->cur != 0)
  {
    Thread& T = W->th[W->cur];
    if (T.last_load_id >= 0)
    {
      block_until_newer(T.last_load_id);
      return 0;
    }
  }
  return 0;
}
extern "C" int nanosleep(const struct timespec*, struct timespec*) { return sys_wait(); }
extern "C" int clock_nanosleep(clockid_t, int, const struct timespec*, struct timespec*) { return sys_wait(); }
extern "C" int sched_yield(void) { return sys_wait(); }

template <typename SysOpt>
struct SysHarness
{
  using F = quill::FrontendImpl<SysOpt>;
  using LG = quill::LoggerImpl<SysOpt>;
  size_t refused{0}; // log calls that returned false (dropping queue)
  quill::detail::BackendWorker* bw{nullptr};
  LG* lg_of[MAXT + 1]{};
  LG* lgS_of[MAXT + 1]{}; // the logger of the shared name "S" as each thread got it
  int gen_of[MAXT + 1]{};                      // generation of the thread's logger (A for thread 1, B for thread 3)
  std::vector<int> removed_of[MAXT + 1];       // generations whose removal was requested
  std::vector<std::pair<int, std::string>> logged_via_of[MAXT + 1]; // (sink id, message) in issue order
  static char const* name_of(int me) { return me == 1 ? "A" : "B"; }
  static int sink_id(int me, int gen) { return me * 10 + gen; }
  // per virtual frontend thread (index = explorer thread id: 1 and 3)
  quill::detail::ScopedThreadContext* stc_of[MAXT + 1]{};
  bool registered_of[MAXT + 1]{};
  bool joined_of[MAXT + 1]{};
  std::vector<std::string> logged_of[MAXT + 1];
  std::vector<std::string> recs, notes;
  unsigned stalls{0};
  // quill keeps the calling thread's context in a thread_local pointer; the virtual threads share one OS thread
  void on_switch(int t) { quill::detail::LoggerBase::thread_context = (t != 2 && stc_of[t]) ? stc_of[t]->get_thread_context() : nullptr; }

  template <typename T>
  static void recreate(T& obj)
  {
    new (&obj) T(); // the previous object's resources belonged to the previous execution and went with it
  }
  void setup()
  {
    W->auto_spin = true;
    W->allow_unordered_writers = true; // spinlock, counters: several writers, positions recorded in the histories
    W->sc_only = g_cfg.sc;
    for (int t = 0; t < MAXT; ++t) g_sys_clock[t] = 0;
    g_sys_recs = &recs;
    g_sys_notes = &notes;
    recreate(quill::detail::ThreadContextManager::instance());
    recreate(quill::detail::LoggerManager::instance());
    recreate(quill::detail::SinkManager::instance());
    quill::detail::LoggerBase::thread_context = nullptr;
    bw = new quill::detail::BackendWorker();
    quill::BackendOptions bo;
    bo.sleep_duration = std::chrono::nanoseconds{0};
    bo.enable_yield_when_idle = false;
    bo.error_notifier = [](std::string const& m) { g_sys_notes->push_back(m); };
    bo.log_timestamp_ordering_grace_period = std::chrono::microseconds{0};
    bo.sink_min_flush_interval = std::chrono::milliseconds{0};
    bo.transit_event_buffer_initial_capacity = 2;
    bo.check_printable_char = {};
    bw->_init(bo);
    if (!g_cfg.runloop.empty()) bw->_is_worker_running.store(true); // Backend::start returns once the backend thread has set this
    // thread 1 logs through logger A (which it may remove and re-create: generation g writes to sink 10 + g), thread 3 through B
    lg_of[1] = F::create_or_get_logger("A", std::make_shared<SysSink>(sink_id(1, 0)), quill::PatternFormatterOptions{"%(message)"}, quill::ClockSourceType::System);
    lg_of[3] = F::create_or_get_logger("B", std::make_shared<SysSink>(sink_id(3, 0)), quill::PatternFormatterOptions{"%(message)"}, quill::ClockSourceType::System);
  }
  void frontend(int me, std::vector<POp> const& ops)
  {
    static constexpr quill::MacroMetadata md{"sys.cpp:1", "fn", "m{}.{}", nullptr, quill::LogLevel::Info, quill::MacroMetadata::Event::Log};
    for (auto const& o : ops)
    {
      if (W->abort_exec) return;
      if (o.kind == 'r' || ((o.kind == 'l' || o.kind == 'L' || o.kind == 'f' || o.kind == 'B') && !registered_of[me]))
      {
        // what the first log call of a thread does (get_local_thread_context): construct the thread's scoped context
        stc_of[me] = new quill::detail::ScopedThreadContext(SysOpt::queue_type, SysOpt::initial_queue_capacity, SysOpt::unbounded_queue_max_capacity, SysOpt::huge_pages_policy);
        quill::detail::LoggerBase::thread_context = stc_of[me]->get_thread_context();
        registered_of[me] = true;
      }
      if (W->abort_exec) return;
      LG* lg = lg_of[me];
      if ((o.kind == 'l' || o.kind == 'f' || o.kind == 'R' || o.kind == 'B') && (!lg || stop_returned)) continue; // the logger is gone / the backend stopped
      if (o.kind == 'L' && !registered_of[me]) continue;
      if (o.kind == 'l')
      {
        bool const ok = lg->template log_statement<false, false>(quill::LogLevel::None, &md, me, static_cast<int>(o.n));
        if (W->abort_exec) return;
        if (ok)
        {
          logged_of[me].push_back("m" + std::to_string(me) + "." + std::to_string(o.n));
          logged_via_of[me].emplace_back(sink_id(me, gen_of[me]), logged_of[me].back());
        }
        else
          ++refused;
      }
      else if (o.kind == 'k' && registered_of[me])
      {
        // Frontend::shrink_thread_local_queue(n) (its one line, on this virtual thread's context)
        if constexpr (SysOpt::queue_type == quill::QueueType::UnboundedBlocking || SysOpt::queue_type == quill::QueueType::UnboundedDropping)
          stc_of[me]->get_thread_context()->template get_spsc_queue<SysOpt::queue_type>().shrink(o.n);
      }
      else if (o.kind == 'R')
      {
        F::remove_logger(lg);
        lg_of[me] = nullptr;
        removed_of[me].push_back(gen_of[me]);
      }
      else if (o.kind == 'B')
      {
        if (o.n)
          deep_remove(lg); // from a deeper frame: the completion flag lives at another address than last time
        else
          F::remove_logger_blocking(lg);
        if (W->abort_exec) return;
        lg_of[me] = nullptr;
        removed_of[me].push_back(gen_of[me]);
        // returns only after the removal has completed: the name is free, the sink (owned by the logger alone) is destroyed,
        // and everything logged through it was written before
        if (F::get_logger(name_of(me))) fail("removal-not-complete-at-return", "remove_logger_blocking returned but get_logger still finds the logger");
        if (std::find(recs.begin(), recs.end(), "destroyed:" + std::to_string(sink_id(me, gen_of[me]))) == recs.end())
          fail("removal-not-complete-at-return", "remove_logger_blocking returned but the logger's sink has not been destroyed");
      }
      else if (o.kind == 'c' && !lg_of[me] && !removed_of[me].empty())
      {
        ++gen_of[me];
        lg_of[me] = F::create_or_get_logger(name_of(me), std::make_shared<SysSink>(sink_id(me, gen_of[me])), quill::PatternFormatterOptions{"%(message)"}, quill::ClockSourceType::System);
      }
      else if (o.kind == 'C')
      {
        // create_or_get_logger of a name both threads use: the first creates it with its sink, the other gets that logger
        lgS_of[me] = F::create_or_get_logger("S", std::make_shared<SysSink>(90 + me), quill::PatternFormatterOptions{"%(message)"}, quill::ClockSourceType::System);
      }
      else if (o.kind == 'L' && lgS_of[me])
      {
        bool const ok = lgS_of[me]->template log_statement<false, false>(quill::LogLevel::None, &md, me, static_cast<int>(o.n));
        if (W->abort_exec) return;
        if (ok)
        {
          logged_of[me].push_back("m" + std::to_string(me) + "." + std::to_string(o.n));
          logged_via_of[me].emplace_back(-1, logged_of[me].back()); // sink decided in the probe (whoever created the logger)
        }
        else
          ++refused;
      }
      else if (o.kind == 'j')
      {
        // std::thread::join of the other frontend thread: everything it did happens-before what follows here
        int const other = me == 1 ? 3 : 1;
        if (other < MAXT && !W->th[other].finished) block_on_custom_condition([other] { return W->th[other].finished; });
        if (W->abort_exec) return;
        W->th[W->cur].clk.join(W->th[other].clk);
        for (size_t k = 0; k < W->th[W->cur].view.size() && k < W->th[other].view.size(); ++k)
          if (W->th[other].view[k] > W->th[W->cur].view[k]) W->th[W->cur].view[k] = W->th[other].view[k];
        g_sys_clock[me] = std::max(g_sys_clock[me], g_sys_clock[other]) + 1; // real time does not run backwards across a join
        joined_of[me] = true;
        W->th[W->cur].hist += "j;";
      }
      else if (o.kind == 'S')
      {
        // Backend::stop(): request + join. Every statement whose call completed before is written when it returns
        bw->stop();
        if (!W->th[2].finished) block_on_custom_condition([] { return W->th[2].finished; });
        if (W->abort_exec) return;
        W->th[W->cur].clk.join(W->th[2].clk); // join
        size_t got = 0;
        std::string const pre = ":m" + std::to_string(me) + ".";
        for (auto const& r : recs)
          if (r.find(pre) != std::string::npos) ++got;
        if (got != logged_of[me].size())
          fail("stop-returned-before-statement-written", "Backend::stop() returned with " + std::to_string(got) + " of the " + std::to_string(logged_of[me].size()) +
                                                          " statements the stopping thread had logged before at the sink");
        stop_returned = true;
      }
      else if (o.kind == 'f')
      {
        lg->flush_log();
        if (W->abort_exec) return;
        // at this instant every statement this thread logged before is at the sink
        size_t got = 0;
        std::string const pre = ":m" + std::to_string(me) + ".";
        for (auto const& r : recs)
          if (r.find(pre) != std::string::npos) ++got;
        // a thread that had exited (and was joined) before flush_log() was called, all of whose statements are written, has
        // been reclaimed when flush_log() returns (the flush handling runs the clean-up before it releases the caller)
        {
          int const other = me == 1 ? 3 : 1;
          if (other < MAXT && joined_of[me] && !registered_of[other] && !logged_of[other].empty() && g_cfg.runloop.empty())
          {
            size_t const ctxs = quill::detail::ThreadContextManager::instance()._thread_contexts.size();
            size_t const live = registered_of[me] ? 1 : 0;
            if (ctxs != live)
              fail("exited-thread-not-reclaimed-at-flush-return", std::to_string(ctxs) + " thread contexts retained when flush_log() returned, " + std::to_string(live) +
                                                                     " live thread(s) have logged (the other thread exited and was joined before the flush)");
          }
        }
        if (got != logged_of[me].size())
          fail("flush-returned-before-statement-written", "flush_log() of thread " + std::to_string(me) + " returned with " + std::to_string(got) + " of its " +
                                                           std::to_string(logged_of[me].size()) + " earlier statements at the sink");
      }
      else if (o.kind == 'x' && registered_of[me])
      {
        // thread exit: the thread-local scoped context is destroyed (a later l / r is the first use of a new thread)
        delete stc_of[me];
        stc_of[me] = nullptr;
        quill::detail::LoggerBase::thread_context = nullptr;
        registered_of[me] = false;
      }
    }
  }
  __attribute__((noinline)) static void deep_remove(LG* lg)
  {
    volatile char pad[384];
    pad[0] = 1;
    pad[383] = pad[0];
    F::remove_logger_blocking(lg);
    (void)pad;
  }
  void producer() { frontend(1, g_cfg.ops); }
  void producer2() { frontend(3, g_cfg.ops2); }
  // a frontend that waits for the backend (flush_log, a full blocking queue) and cannot go on by itself
  // (only when NO frontend can run: a frontend spinning on a lock another frontend holds is waiting for that one, not for the
  // backend)
  static bool frontend_needs_backend()
  {
    bool any = false;
    for (int t : {1, 3})
    {
      if (t >= MAXT || W->th[t].finished) continue;
      if (!(W->th[t].blocked && !wake_possible(W->th[t]))) return false;
      if (W->th[t].custom_wait) continue; // joining another frontend: waits for that one
      any = true;
    }
    return any;
  }
  static bool frontends_finished()
  {
    for (int t : {1, 3})
      if (t < MAXT && !W->th[t].finished) return false;
    return true;
  }
  bool stop_returned{false};
  void consumer()
  {
    if (!g_cfg.runloop.empty())
    {
      // the loop of the backend thread (the lambda in BackendWorker::run cannot run here: it is handed to std::thread). The
      // memory order of the loop's load is read from the source by the driver (and the driver fails if the loop looks
      // different from what this replica assumes): while (_is_worker_running.load(order)) _poll();  _exit();
      std::memory_order const mo = g_cfg.runloop == "relaxed" ? std::memory_order_relaxed : g_cfg.runloop == "acquire" ? std::memory_order_acquire : std::memory_order_seq_cst;
      size_t polls = 0;
      while (bw->_is_worker_running.load(mo) && !W->abort_exec)
      {
        if (++polls > g_cfg.passes + g_cfg.extra)
        {
          // nothing left to explore with a still running backend: wait for the stop request
          block_until_newer(bw->_is_worker_running.vf_id());
          if (W->abort_exec) return;
          continue;
        }
        bw->_poll();
      }
      if (W->abort_exec) return;
      bw->_exit();
      return;
    }
    for (size_t i = 0; i < g_cfg.passes && !W->abort_exec; ++i) bw->_poll();
    // afterwards the backend keeps polling only for as long as a frontend is waiting for it (at most `extra` more polls: a
    // correct backend serves a waiting frontend within two; a frontend still waiting after them is reported as a deadlock)
    W->th[2].latest_only = true; // a store becomes visible in finite time: the on-demand polls see the latest values
    for (size_t extra = 0; extra < g_cfg.extra && !W->abort_exec; ++extra)
    {
      if (!frontend_needs_backend())
      {
        if (frontends_finished()) break;
        block_on_custom_condition([] { return frontend_needs_backend() || frontends_finished(); });
        if (W->abort_exec || frontends_finished()) break;
      }
      bw->_poll();
    }
  }
  void probe()
  {
    // both virtual threads are done and joined: the backend now polls alone until nothing moves
    for (int t = 1; t < MAXT; ++t) W->th[0].clk.join(W->th[t].clk);
    for (size_t k = 0; k < W->th[0].view.size(); ++k) W->th[0].view[k] = static_cast<int>(W->locs[k].mo.size()) - 1;
    W->latest_only = true;
    size_t before = recs.size() + 1;
    // (a poll below the soft limit writes one statement: as many polls as there are statements, and a few; a stopped backend
    // polls no more)
    int const max_polls = static_cast<int>(g_cfg.ops.size() + g_cfg.ops2.size()) + 8;
    for (int i = 0; g_cfg.runloop.empty() && i < max_polls && (recs.size() != before || i < 3); ++i)
    {
      before = recs.size();
      bw->_poll();
    }
    W->latest_only = false;
    size_t want = 0;
    for (int me : {1, 3})
    {
      std::vector<std::string> got;
      std::string const pre = ":m" + std::to_string(me) + ".";
      for (auto const& r : recs)
        if (r.find(pre) != std::string::npos) got.push_back(r.substr(r.find(':') + 1));
      // (a stopped backend owes nothing to statements of another thread that were not ordered before the stop request:
      // they stay queued for the next start)
      bool const exempt = !g_cfg.runloop.empty() && me != 1;
      if (exempt && got.size() <= logged_of[me].size() && std::equal(got.begin(), got.end(), logged_of[me].begin())) got = logged_of[me];
      if (got != logged_of[me])
      {
        std::string a, b;
        for (auto const& r : got) a += r + " ";
        for (auto const& r : logged_of[me]) b += r + " ";
        fail("statement-lost-duplicated-or-reordered", "the sink received [" + a + "] from thread " + std::to_string(me) + " after the backend drained alone; the thread's completed log calls were [" + b + "]");
      }
      if (registered_of[me]) ++want;
    }
    // the shared name: one logger, the same for everybody who asked; its sink is the first creator's, the other sink offered
    // is destroyed unused
    {
      size_t named_s = 0;
      for (auto const& lp : quill::detail::LoggerManager::instance()._loggers)
        if (lp->get_logger_name() == "S") ++named_s;
      bool const any = lgS_of[1] || lgS_of[3];
      if (named_s != (any ? 1u : 0u))
        fail("logger-name-not-unique", std::to_string(named_s) + " loggers are registered under the name S");
      if (lgS_of[1] && lgS_of[3] && lgS_of[1] != lgS_of[3])
        fail("create_or_get_logger-not-idempotent", "two threads asked for the logger S and got two different loggers");
      int shared_sink = -1;
      if (any && !W->violation)
      {
        LG* l = lgS_of[1] ? lgS_of[1] : lgS_of[3];
        shared_sink = static_cast<SysSink*>(l->sinks[0].get())->_id;
        for (int me : {1, 3})
        {
          for (auto& pr : logged_via_of[me])
            if (pr.first == -1) pr.first = shared_sink;
          if (lgS_of[me] && 90 + me != shared_sink && std::count(recs.begin(), recs.end(), "destroyed:" + std::to_string(90 + me)) != 1)
            fail("unused-sink-not-destroyed", "the sink thread " + std::to_string(me) + " offered for the already existing logger S was not destroyed exactly once");
        }
        if (std::count(recs.begin(), recs.end(), "destroyed:" + std::to_string(shared_sink)) != 0)
          fail("sink-destroyed-while-referenced", "the sink of the live logger S was destroyed");
      }
    }
    // logger generations: each statement at the sink of the generation it was logged through; a sink is destroyed exactly once,
    // after everything logged through its logger was written, and only if the logger's removal was requested
    for (int me : {1, 3})
    {
      std::vector<std::pair<int, std::string>> at_sink;
      std::string const pre = ":m" + std::to_string(me) + ".";
      for (auto const& r : recs)
        if (r.find(pre) != std::string::npos) at_sink.emplace_back(atoi(r.c_str()), r.substr(r.find(':') + 1));
      bool const exempt = !g_cfg.runloop.empty() && me != 1;
      if (exempt && at_sink.size() <= logged_via_of[me].size() && std::equal(at_sink.begin(), at_sink.end(), logged_via_of[me].begin())) at_sink = logged_via_of[me];
      if (at_sink != logged_via_of[me] && !W->violation)
        fail("statement-at-wrong-sink", "statements of thread " + std::to_string(me) + " did not reach the sinks of the logger generations they were logged through");
      for (int g = 0; g <= gen_of[me]; ++g)
      {
        int const sid = sink_id(me, g);
        std::string const d = "destroyed:" + std::to_string(sid);
        long const n = std::count(recs.begin(), recs.end(), d);
        bool const removed = std::find(removed_of[me].begin(), removed_of[me].end(), g) != removed_of[me].end();
        if (n != (removed ? 1 : 0))
          fail(n > (removed ? 1 : 0) ? "sink-destroyed-while-referenced" : "sink-not-destroyed-after-removal",
               "sink " + std::to_string(sid) + " destroyed " + std::to_string(n) + " time(s), removal of its logger " + (removed ? "was" : "was not") + " requested");
        if (n)
        {
          size_t const pos = static_cast<size_t>(std::find(recs.begin(), recs.end(), d) - recs.begin());
          for (size_t k = pos; k < recs.size(); ++k)
            if (recs[k].rfind(std::to_string(sid) + ":", 0) == 0) fail("sink-used-after-destruction", "sink " + std::to_string(sid) + " received '" + recs[k] + "' after its destruction");
        }
      }
      bool const want = lg_of[me] != nullptr;
      if ((F::get_logger(name_of(me)) != nullptr) != want && !W->violation)
        fail("logger-registry-wrong", std::string("after the drain get_logger(") + name_of(me) + ") " + (want ? "finds nothing although the logger exists" : "still finds a removed logger"));
    }
    size_t const ctxs = quill::detail::ThreadContextManager::instance()._thread_contexts.size();

    // (a stopped backend reclaims nothing any more: a thread that exits around or after the stop keeps its context until the
    // next start)
    if (ctxs != want && g_cfg.runloop.empty()) fail("contexts-not-reclaimed", std::to_string(ctxs) + " thread contexts retained after the drain, " + std::to_string(want) + " live thread(s) have logged");
    size_t reported = 0;
    for (auto const& n : notes)
    {
      size_t const p = n.find("Dropped ");
      if (p != std::string::npos)
        reported += static_cast<size_t>(atol(n.c_str() + p + 8));
      else if (n.find("Quill INFO") == std::string::npos)
        fail("unexpected-backend-error", n);
    }
    if (SysOpt::queue_type == quill::QueueType::BoundedDropping && reported != refused)
      fail("drop-count-mismatch", "the notifier reported " + std::to_string(reported) + " dropped statements, " + std::to_string(refused) + " log calls returned false");
    if (SysOpt::queue_type != quill::QueueType::BoundedDropping && refused) fail("blocking-call-refused", "a log call on a blocking queue returned false");
  }
  void teardown() {}
};
#endif

struct ExecResult
{
  std::vector<Point> trace;
  bool violation{false}, aborted{false}, deadlock{false};
  std::string vkind, vdetail, extra;
  unsigned stalls{0};
  size_t max_mapped{0}, max_live{0};
  size_t blocked_request{0};
};

template <typename H>
static ExecResult run_one_inner(std::vector<int> const& prefix);

// the world and the harness object are destroyed (everything they own is freed) before what is left over is reclaimed
template <typename H>
static ExecResult run_one(std::vector<int> const& prefix)
{
  ExecResult res = run_one_inner<H>(prefix);
  release_deferred();
  return res;
}

template <typename H>
static ExecResult run_one_inner(std::vector<int> const& prefix)
{
  ExecResult res;
  World world;
  W = &world;
  W->prefix = prefix;
  g_track = true;
  g_max_mapped_len = g_max_live_mapped = 0;
  for (int t = 0; t < MAXT; ++t) W->th[t].view.clear();
  H h;
  W->cur = 0;
  g_record_main = true;
  h.setup();
  g_record_main = false;
  // thread start = happens-before edge from main
  for (int t = 1; t < MAXT; ++t)
  {
    W->th[t].clk = W->th[0].clk;
    W->th[t].view = W->th[0].view;
  }
  g_body[1] = [&h] { h.producer(); };
  g_body[2] = [&h] { h.consumer(); };
  if constexpr (MAXT > 3)
  {
    if constexpr (has_producer2<H>::value)
      g_body[3] = [&h] { h.producer2(); };
    else
      g_body[3] = [] {};
  }
  g_on_switch = nullptr;
  if constexpr (has_on_switch<H>::value) g_on_switch = [&h](int t) { h.on_switch(t); };
  for (int t = 1; t < MAXT; ++t)
  {
    if (!g_stacks[t]) g_stacks[t] = static_cast<char*>(malloc(STACK));
    getcontext(&W->th[t].ctx);
    W->th[t].ctx.uc_stack.ss_sp = g_stacks[t];
    W->th[t].ctx.uc_stack.ss_size = STACK;
    W->th[t].ctx.uc_link = &W->main_ctx;
    makecontext(&W->th[t].ctx, tramp, 0);
  }
  if (MAXT > 3 && g_cfg.ops2.empty()) W->th[MAXT - 1].finished = true; // no second frontend in this configuration: never scheduled
  W->in_exec = true;
  int cur = -1;
  while (!W->abort_exec)
  {
    int en[MAXT];
    int n = 0;
    bool cur_enabled = false;
    for (int t = 1; t < MAXT; ++t)
    {
      Thread& T = W->th[t];
      if (T.finished) continue;
      if (T.blocked && !wake_possible(T)) continue;
      en[n++] = t;
    }
    if (n == 0) break;
    // canonical order: running thread first
    for (int i = 0; i < n; ++i)
      if (en[i] == cur)
      {
        std::swap(en[0], en[i]);
        cur_enabled = true;
      }
    int const c = pick(n, true, cur_enabled ? 1 : 0, 0, 0);
    if (W->abort_exec) break;
    if (c != 0 && cur_enabled) ++W->deviations;
    cur = en[c];
    W->cur = cur;
    if (g_on_switch) g_on_switch(cur);
    static bool const trace_on = getenv("VF_TRACE") != nullptr;
    (void)trace_on;
    swapcontext(&W->main_ctx, &W->th[cur].ctx);
    W->cur = 0;
  }
  W->in_exec = false;
  bool all_done = true;
  for (int t = 1; t < MAXT; ++t) all_done = all_done && W->th[t].finished;
  if (!W->abort_exec && !all_done)
  {
    res.deadlock = true;
    std::string who;
    for (int t = 1; t < MAXT; ++t)
      if (!W->th[t].finished) who += (t == 2 ? "consumer " : "producer ");
    // a producer that can never be served although the consumer has consumed everything is the C09 verdict
    if (g_cfg.mode.rfind("sys", 0) == 0)
      fail("frontend-waits-for-ever", "a frontend call (flush_log / a blocking log call / a spinlock) never returns although the backend polled " + std::to_string(g_cfg.extra) +
                                        " more times while it was waiting: " + who + "blocked");
    else
      fail("deadlock", "no thread can make progress: " + who + "blocked (a fitting record is never granted / a committed record never becomes visible)");
  }
  if (!W->violation && all_done && g_cfg.probe)
  {
    g_record_main = true; // whatever the probe allocates belongs to this execution
    h.probe();
    g_record_main = false;
  }
  res.stalls = h.stalls;
  if (!W->violation && all_done)
  {
    // join = happens-before edges into main; destroying the queue touches every remaining node
    for (int t = 1; t < MAXT; ++t) W->th[0].clk.join(W->th[t].clk);
    for (size_t k = 0; k < W->th[0].view.size(); ++k)
      W->th[0].view[k] = static_cast<int>(W->locs[k].mo.size()) - 1;
    W->latest_only = true;
    h.teardown();
    W->latest_only = false;
    size_t live = 0;
    for (auto const& r : g_regions)
      if (!r.dead) ++live;
    if (live != 0 && !W->violation && g_cfg.mode.rfind("sys", 0) != 0) fail("buffer-leak", std::to_string(live) + " queue buffers still mapped after the queue was destroyed");
  }
  if (!W->violation && g_cfg.mode == "unbounded" && quill::detail::is_power_of_two(g_cfg.maxcap) && g_max_mapped_len > 2 * g_cfg.maxcap + 16 + 2 * 128)
    fail("allocated-beyond-maximum", "a buffer of " + std::to_string(g_max_mapped_len) + " bytes was mapped, the maximum capacity is " + std::to_string(g_cfg.maxcap));
  res.trace = W->trace;
  res.violation = W->violation;
  res.aborted = W->abort_exec && !W->violation;
  res.vkind = W->vkind;
  res.vdetail = W->vdetail;
  res.blocked_request = g_blocked_request;
  g_blocked_request = 0;
  res.max_mapped = g_max_mapped_len;
  res.max_live = g_max_live_mapped;
  g_track = false;
  W = nullptr;
  return res;
}

static std::string choices_str(std::vector<int> c)
{
  while (!c.empty() && c.back() == 0) c.pop_back();
  std::string s;
  for (size_t i = 0; i < c.size(); ++i) s += (i ? "," : "") + std::to_string(c[i]);
  return s.empty() ? "0" : s;
}

static std::string cfg_string()
{
  std::string ops;
  for (auto const& o : g_cfg.ops) ops += (ops.empty() ? "" : ",") + std::string(1, o.kind) + std::to_string(o.n);
  if (g_cfg.mode == "bounded")
    return "mode=bounded itype=" + g_cfg.itype + " cap=" + std::to_string(g_cfg.cap) + (g_cfg.rawcap ? " rawcap=" + std::to_string(g_cfg.rawcap) : std::string()) + " percent=" + std::to_string(g_cfg.percent) + " preset=" + std::to_string(g_cfg.preset) + " ops=" + ops;
  if (g_cfg.mode == "counter") return "mode=counter ops=" + ops;
  if (g_cfg.mode.rfind("sys", 0) == 0)
  {
    std::string o2;
    for (auto const& o : g_cfg.ops2) o2 += (o2.empty() ? "" : ",") + std::string(1, o.kind) + std::to_string(o.n);
    return "mode=" + g_cfg.mode + " sc=" + std::to_string(g_cfg.sc ? 1 : 0) + " passes=" + std::to_string(g_cfg.passes) + " extra=" + std::to_string(g_cfg.extra) + (g_cfg.runloop.empty() ? "" : " runloop=" + g_cfg.runloop) + " ops=" + ops + (o2.empty() ? "" : " ops2=" + o2);
  }
  if (false) return "mode=" + g_cfg.mode + " sc=" + std::to_string(g_cfg.sc ? 1 : 0) + " passes=" + std::to_string(g_cfg.passes) + " ops=" + ops;
  return "mode=unbounded initial=" + std::to_string(g_cfg.initial) + " max=" + std::to_string(g_cfg.maxcap) + " ops=" + ops;
}

template <typename H>
static int explore(vf::Args const& a)
{
  long const max_exec = a.geti("--max-exec", 50000000);
  double const deadline = static_cast<double>(a.geti("--deadline", 120));
  struct timespec t0;
  clock_gettime(CLOCK_MONOTONIC, &t0);
  auto elapsed = [&t0]
  {
    struct timespec t;
    clock_gettime(CLOCK_MONOTONIC, &t);
    return static_cast<double>(t.tv_sec - t0.tv_sec) + static_cast<double>(t.tv_nsec - t0.tv_nsec) * 1e-9;
  };
  if (char const* rp = a.get("--replay"))
  {
    std::vector<int> pf;
    std::string s = rp;
    size_t p = 0;
    while (p < s.size())
    {
      size_t e = s.find(',', p);
      if (e == std::string::npos) e = s.size();
      if (e > p) pf.push_back(atoi(s.substr(p, e - p).c_str()));
      p = e + 1;
    }
    g_visited.clear();
    ExecResult r1 = run_one<H>(pf);
    g_visited.clear();
    ExecResult r2 = run_one<H>(pf);
    if (r1.violation != r2.violation || r1.vkind != r2.vkind)
      vf::J("error").s("msg", "NONDETERMINISM: the same choice list gave two different outcomes").emit();
    else if (r1.violation)
      vf::J("viol").s("kind", r1.vkind).s("detail", r1.vdetail).s("config", cfg_string()).s("case", choices_str(pf)).emit();
    vf::done();
    return 0;
  }

  unsigned long long executions = 0, transitions = 0, complete = 0, stalls = 0;
  bool exhaustive = true;
  std::vector<std::vector<int>> stack;
  stack.push_back({});
  std::map<std::string, int> kinds;
  size_t max_trace = 0, max_mapped = 0, max_live = 0;
  unsigned long long rf_alternatives = 0;
  while (!stack.empty())
  {
    if (static_cast<long>(executions) >= max_exec || elapsed() > deadline)
    {
      exhaustive = false;
      break;
    }
    std::vector<int> pf = std::move(stack.back());
    stack.pop_back();
    ExecResult r = run_one<H>(pf);
    ++executions;
    transitions += r.trace.size();
    max_trace = std::max(max_trace, r.trace.size());
    max_mapped = std::max(max_mapped, r.max_mapped);
    max_live = std::max(max_live, r.max_live);
    stalls += r.stalls;
    if (!r.aborted && !r.violation) ++complete;
    std::vector<int> choices;
    for (auto const& p : r.trace) choices.push_back(p.chosen);
    if (r.violation)
    {
      int& cnt = kinds[r.vkind];
      if (++cnt <= 2)
      {
        // replay before report
        std::unordered_set<uint64_t> saved;
        saved.swap(g_visited);
        ExecResult again = run_one<H>(choices);
        g_visited.swap(saved);
        if (!again.violation || again.vkind != r.vkind)
          vf::J("error").s("msg", "violation did not reproduce from its recorded choice list (" + r.vkind + ")").emit();
        else
        {
          size_t largest_pow2 = 1;
          while (largest_pow2 * 2 <= g_cfg.maxcap) largest_pow2 *= 2;
          bool const overshoot = g_cfg.mode == "unbounded" && !quill::detail::is_power_of_two(g_cfg.maxcap) &&
            (r.vkind == "stall-on-empty-queue-nonpow2" || (r.vkind == "deadlock" && r.blocked_request > largest_pow2 && r.blocked_request <= g_cfg.maxcap));
          vf::J("viol").s("kind", r.vkind).s("detail", r.vdetail).s("config", cfg_string()).s("mode", g_cfg.mode).s("case", choices_str(choices))
            .u("blocked_request", r.blocked_request).b("max_capacity_power_of_two", quill::detail::is_power_of_two(g_cfg.maxcap))
            .b("request_between_largest_power_of_two_and_non_power_of_two_max", overshoot).emit();
        }
      }
      if (r.vkind == "explorer-nondeterminism" || r.vkind == "harness-error")
      {
        vf::J("error").s("msg", r.vkind + ": " + r.vdetail).emit();
        exhaustive = false;
        break;
      }
      if (r.vkind == "harness-assumption-broken")
      {
        // two writers of one atomic that are not ordered by happens-before: in these queues that can only happen when a
        // side touches a node without synchronising with its construction/publication - a verdict about the code (already
        // emitted above); the history-based key is no longer exact, so this configuration is not explored further
        exhaustive = false;
        break;
      }
      // do not expand below a violating execution; siblings are still explored
    }
    // expand every decision made after the replayed prefix (for an aborted execution: up to where it stopped)
    size_t const from = pf.size();
    for (size_t i = from; i < r.trace.size(); ++i)
    {
      Point const& p = r.trace[i];
      if (!p.sched) rf_alternatives += static_cast<unsigned long long>(p.n - 1);
      for (int alt = 1; alt < p.n; ++alt)
      {
        uint64_t const vk = p.key * 1099511628211ull + static_cast<uint64_t>(alt + 1);
        if (g_visited.count(vk)) continue;
        std::vector<int> npf(choices.begin(), choices.begin() + static_cast<long>(i));
        npf.push_back(alt);
        stack.push_back(std::move(npf));
      }
    }
  }
  vf::J("stat")
    .u("executions", executions)
    .u("states", g_visited.size())
    .u("transitions", transitions)
    .u("traces_validated_against_impl", executions)
    .u("complete_executions", complete)
    .u("executions_cut_at_known_state", wmm::g_pruned)
    .u("read_from_alternatives", rf_alternatives)
    .u("max_choice_points", max_trace)
    .u("max_single_mapping_bytes", max_mapped)
    .u("max_live_mapped_bytes", max_live)
    .u("configurations", 1)
    .u("configurations_exhaustive", exhaustive ? 1 : 0)
    .emit();
  if (!exhaustive) vf::J("cap").s("why", cfg_string() + ": execution/time cap hit with " + std::to_string(stack.size()) + " branches unexplored").emit();
  static int sample_once = 0;
  if (g_cfg.ops.size() >= 3 && executions > 100 && !sample_once++) vf::J("sample").s("config", cfg_string()).u("executions", executions).u("canonical_state_choice_pairs", g_visited.size()).emit();
  return 0;
}

int main(int argc, char** argv)
{
  vf::Args a{argc, argv};
  g_cfg.mode = a.get("--mode", "bounded");
  g_cfg.itype = a.get("--itype", "u8");
  g_cfg.cap = static_cast<size_t>(a.geti("--cap", 8));
  g_cfg.rawcap = static_cast<size_t>(a.geti("--rawcap", 0));
  g_cfg.percent = static_cast<size_t>(a.geti("--percent", 5));
  g_cfg.preset = a.geti("--preset", 0) != 0;
  g_cfg.initial = static_cast<size_t>(a.geti("--initial", 8));
  g_cfg.maxcap = static_cast<size_t>(a.geti("--max", 32));
  g_cfg.probe = a.geti("--probe", 1) != 0;
  g_cfg.sc = a.geti("--sc", 0) != 0;
  g_cfg.passes = static_cast<size_t>(a.geti("--passes", 2));
  g_cfg.extra = static_cast<size_t>(a.geti("--extra", 0));
  g_cfg.runloop = a.get("--runloop", "");
  {
    std::string s2 = a.get("--ops2", "");
    size_t p2 = 0;
    while (p2 < s2.size())
    {
      size_t e = s2.find(',', p2);
      if (e == std::string::npos) e = s2.size();
      std::string t = s2.substr(p2, e - p2);
      if (!t.empty()) g_cfg.ops2.push_back(POp{t[0], static_cast<size_t>(atol(t.c_str() + 1))});
      p2 = e + 1;
    }
  }
  {
    std::string s = a.get("--ops", "w1,w4,w8");
    size_t p = 0;
    while (p < s.size())
    {
      size_t e = s.find(',', p);
      if (e == std::string::npos) e = s.size();
      std::string t = s.substr(p, e - p);
      if (!t.empty()) g_cfg.ops.push_back(POp{t[0], static_cast<size_t>(atol(t.c_str() + 1))});
      p = e + 1;
    }
  }
  auto dispatch = [&a]() -> int
  {
    if (g_cfg.mode == "unbounded") return explore<UnboundedHarness>(a);
    if (g_cfg.mode == "counter") return explore<CounterHarness>(a);
#ifdef VF_SYS
    if (g_cfg.mode == "sys") return explore<SysHarness<SysOpt>>(a);
    if (g_cfg.mode == "sysbd") return explore<SysHarness<SysOptBD>>(a);
    if (g_cfg.mode == "sysbb") return explore<SysHarness<SysOptBB>>(a);
#endif
    if (g_cfg.itype == "u8") return explore<BoundedHarness<quill::detail::BoundedSPSCQueueImpl<uint8_t>>>(a);
    if (g_cfg.itype == "u16") return explore<BoundedHarness<quill::detail::BoundedSPSCQueueImpl<uint16_t>>>(a);
    return explore<BoundedHarness<quill::detail::BoundedSPSCQueueImpl<size_t>>>(a);
  };
  if (char const* batch = a.get("--ops-batch"))
  {
    // several operation sequences for the same queue configuration, explored one after the other
    std::string b = batch;
    size_t p = 0;
    // wall-clock budget of the whole batch (a changed queue can make single configurations run into their deadline one
    // after the other): what was not started is reported as a cap, never silently skipped
    long const batch_budget = a.geti("--batch-budget", 0);
    time_t const batch_start = time(nullptr);
    unsigned long long not_started = 0;
    while (p < b.size())
    {
      size_t e = b.find(';', p);
      if (e == std::string::npos) e = b.size();
      std::string one = b.substr(p, e - p);
      p = e + 1;
      if (one.empty()) continue;
      if (batch_budget > 0 && time(nullptr) - batch_start > batch_budget)
      {
        ++not_started;
        continue;
      }
      g_cfg.ops.clear();
      size_t q = 0;
      while (q < one.size())
      {
        size_t e2 = one.find(',', q);
        if (e2 == std::string::npos) e2 = one.size();
        std::string t = one.substr(q, e2 - q);
        if (!t.empty()) g_cfg.ops.push_back(POp{t[0], static_cast<size_t>(atol(t.c_str() + 1))});
        q = e2 + 1;
      }
      g_visited.clear();
      wmm::g_pruned = 0;
      dispatch();
    }
    if (not_started)
      vf::J("cap").s("why", "batch budget of " + std::to_string(batch_budget) + " s used up: " + std::to_string(not_started) + " configurations of this batch not started").emit();
    vf::done();
#ifdef VF_SYS
    fflush(stdout);
    fflush(stderr);
    _exit(0);
#endif
    return 0;
  }
  int rc = dispatch();
  if (!a.get("--replay")) vf::done();
#ifdef VF_SYS
  // process-wide singletons were re-created in place for every execution and what they owned went with the executions:
  // their destructors must not run
  fflush(stdout);
  fflush(stderr);
  _exit(rc);
#endif
  return rc;
}
