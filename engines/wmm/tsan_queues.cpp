// Race guard outside the scheduler (advisory net for the queues' PLAIN private fields, which Engine A does not
// race-check): the same producer / consumer bodies against the real std::atomic, free running under
// -fsanitize=thread.  A ThreadSanitizer report makes the process exit with status 66.
//
// argv: --mode bounded|unbounded --records N
#include "quill/core/BoundedSPSCQueue.h"
#include "quill/core/UnboundedSPSCQueue.h"

#include "vf_out.h"

#include <atomic>
#include <thread>
#include <vector>

using namespace quill::detail;

static unsigned char pattern(size_t i, size_t k, size_t n)
{
  if (k == 0) return static_cast<unsigned char>(n);
  return static_cast<unsigned char>(17 * i + 3 * k + 1);
}

template <typename Q, typename Prep, typename Read>
static unsigned long long run(Q& q, size_t records, size_t maxn, Prep prepare_write, Read prepare_read)
{
  std::atomic<bool> bad{false};
  std::thread prod(
    [&]
    {
      for (size_t i = 0; i < records && !bad.load(std::memory_order_relaxed); ++i)
      {
        size_t const n = 1 + (i * 7 + i / 3) % maxn;
        std::byte* p;
        while (!(p = prepare_write(n))) std::this_thread::yield();
        for (size_t k = 0; k < n; ++k) reinterpret_cast<unsigned char*>(p)[k] = pattern(i, k, n);
        q.finish_and_commit_write(n);
        if (i % 64 == 63) std::this_thread::yield();
      }
    });
  unsigned long long got = 0;
  std::thread cons(
    [&]
    {
      while (got < records)
      {
        size_t bytes = 0;
        while (std::byte* p = prepare_read())
        {
          size_t const n = reinterpret_cast<unsigned char*>(p)[0];
          size_t const want = 1 + (got * 7 + got / 3) % maxn;
          bool ok = n == want;
          for (size_t k = 0; ok && k < n; ++k) ok = reinterpret_cast<unsigned char*>(p)[k] == pattern(got, k, n);
          if (!ok)
          {
            bad.store(true);
            got = records;
            return;
          }
          q.finish_read(n);
          bytes += n;
          ++got;
          if (bytes > 4096) break;
        }
        if (bytes)
          q.commit_read();
        else
          std::this_thread::yield();
      }
    });
  prod.join();
  cons.join();
  if (bad.load()) vf::J("viol").s("kind", "free-running-stream-corrupted").s("case", "tsan guard run").s("detail", "consumer saw a record that differs from the committed stream").emit();
  return got;
}

int main(int argc, char** argv)
{
  vf::Args a{argc, argv};
  std::string const mode = a.get("--mode", "bounded");
  size_t const records = static_cast<size_t>(a.geti("--records", 200000));
  unsigned long long got = 0;
  if (mode == "bounded")
  {
    BoundedSPSCQueue q{static_cast<size_t>(a.geti("--cap", 256))};
    got = run(q, records, 60, [&q](size_t n) { return q.prepare_write(n); }, [&q] { return q.prepare_read(); });
  }
  else
  {
    UnboundedSPSCQueue q{64, 4096};
    size_t i = 0;
    got = run(
      q, records, 200,
      [&q, &i](size_t n)
      {
        // shrink from time to time so that grow / shrink / free all happen while the other side runs
        if (++i % 5000 == 0) q.shrink(64);
        return q.prepare_write(n);
      },
      [&q] { return q.prepare_read().read_pos; });
  }
  vf::J("stat").u("tsan_guard_records", got).emit();
  vf::done();
  return 0;
}
