// C17: removing / re-creating loggers never loses statements nor frees state in use (built with -fsanitize=address).
#include "sc_common.h"

using namespace sc;

enum Op17
{
  LogA,
  LogB,
  RemoveA,        // non-blocking
  RemoveABlocking,
  RemoveABlockingDeep, // the same call from a deeper stack frame (another address for the caller's completion flag)
  RecreateA,      // create_or_get_logger("A", {S3}) - only after a blocking removal, as documented
  RemoveB,
  GetA,
  GetSinkS1,
  CreateSinkS1Again,
  CreateGetLoggerBAgain
};

// calls f from a frame n levels deeper (the frames cannot be merged or turned into a loop)
static void deep_call(int n, std::function<void()> const& f)
{
  volatile char pad[200];
  pad[0] = static_cast<char>(n);
  if (n == 0)
    f();
  else
    deep_call(n - 1, f);
  pad[1] = pad[0];
}

static std::vector<std::vector<Op17>> shape(long s)
{
  switch (s)
  {
  case 0: return {{LogA, LogA, RemoveA}, {LogB, LogB}};
  case 1: return {{LogA, RemoveABlocking, RecreateA, LogA}, {LogB, GetA, LogB}};
  case 2: return {{LogA, RemoveA}, {LogB, RemoveB}};
  case 3: return {{LogA, RemoveABlocking, RecreateA, LogA, RemoveABlocking, RecreateA, LogA}, {LogB}};
  case 4: return {{LogA, GetSinkS1, RemoveA}, {CreateSinkS1Again, LogB, CreateGetLoggerBAgain, LogB}};
  case 5: return {{LogA, LogA, RemoveABlocking}, {LogB, RemoveB}};
  case 6: return {{LogA, RemoveABlocking, RecreateA, LogA, RemoveABlockingDeep, RecreateA, LogA, RemoveABlocking}, {LogB}};
  case 7: return {{LogA, RemoveA}, {LogB, RemoveB}}; // with dtor_yield: the backend is preempted while it erases loggers
  default: return {{LogA}, {LogB}};
  }
}

template <typename Opt>
static Scenario make_c17(std::map<std::string, long> const& cfg)
{
  using F = FrontendImpl<Opt>;
  using L = LoggerImpl<Opt>;
  Scenario sc;
  auto sh = std::make_shared<std::vector<std::vector<Op17>>>(shape(cfg.count("shape") ? cfg.at("shape") : 0));
  struct Shared
  {
    L* a{nullptr};
    L* b{nullptr};
    int a_generation{0};
    std::vector<int> a_sinks{1, 2}; // sinks of the current logger A
  };
  auto st = std::make_shared<Shared>();
  sc.setup = [st](World& w, Scenario const& s)
  {
    w.backend_options.transit_event_buffer_initial_capacity = static_cast<size_t>(s.c("tbuf", 2));
    // the harness keeps no owning reference to the sinks: only the loggers (and the sink manager's weak entries) do
    {
      auto s1 = F::template create_or_get_sink<RecSink>("S1", 1);
      auto s2 = F::template create_or_get_sink<RecSink>("S2", 2);
      st->a = F::create_or_get_logger("A", {s1, s2}, PatternFormatterOptions{"%(message)"}, ClockSourceType::System);
      st->b = F::create_or_get_logger("B", {s1}, PatternFormatterOptions{"%(message)"}, ClockSourceType::System);
    }
  };
  for (size_t t = 0; t < sh->size(); ++t)
    sc.frontends.push_back(
      [t, sh, st](World& w, Scenario const&)
      {
        int const tid = static_cast<int>(t) + 1;
        int seq = 0;
        for (Op17 op : (*sh)[t])
        {
          point();
          switch (op)
          {
          case LogA:
          {
            ++seq;
            log_id(st->a, tid, seq);
            std::string sinks;
            for (int s : st->a_sinks) sinks += std::to_string(s) + ",";
            w.events.push_back("logA " + std::to_string(tid) + "." + std::to_string(seq) + " gen " + std::to_string(st->a_generation) + " sinks " + sinks);
            break;
          }
          case LogB:
            ++seq;
            log_id(st->b, tid, seq);
            w.events.push_back("logB " + std::to_string(tid) + "." + std::to_string(seq));
            break;
          case RemoveA:
            F::remove_logger(st->a);
            w.events.push_back("removeA gen " + std::to_string(st->a_generation));
            break;
          case RemoveABlockingDeep:
          case RemoveABlocking:
          {
            size_t const before = F::get_number_of_loggers();
            if (op == RemoveABlockingDeep)
              deep_call(6, [&] { F::remove_logger_blocking(st->a); });
            else
              F::remove_logger_blocking(st->a);
            bool const gone = F::get_logger("A") == nullptr;
            size_t const after = F::get_number_of_loggers();
            w.events.push_back("removeA-blocking gen " + std::to_string(st->a_generation) + " returned");
            if (!gone) w.fail("removal-not-complete", "remove_logger_blocking returned but get_logger(\"A\") still finds the logger");
            if (after + 1 != before && after >= before) w.fail("removal-not-complete", "logger count " + std::to_string(before) + " -> " + std::to_string(after) + " after remove_logger_blocking");
            break;
          }
          case RecreateA:
          {
            // different sinks than before: generation 1 -> {S3}, generation 2 -> {S1}
            ++st->a_generation;
            if (st->a_generation % 2 == 1)
            {
              auto s3 = F::template create_or_get_sink<RecSink>("S3", 3);
              st->a = F::create_or_get_logger("A", {s3}, PatternFormatterOptions{"%(message)"}, ClockSourceType::System);
              st->a_sinks = {3};
            }
            else
            {
              auto s1 = F::template create_or_get_sink<RecSink>("S1", 1);
              st->a = F::create_or_get_logger("A", {s1}, PatternFormatterOptions{"%(message)"}, ClockSourceType::System);
              st->a_sinks = {1};
            }
            L* again = F::get_logger("A");
            if (again != st->a) w.fail("lookup-not-idempotent", "get_logger(\"A\") after re-creation returned a different logger");
            if (st->a->get_sinks().size() != 1) w.fail("recreated-with-old-sinks", "re-created logger A has " + std::to_string(st->a->get_sinks().size()) + " sinks");
            w.events.push_back("recreateA gen " + std::to_string(st->a_generation));
            break;
          }
          case RemoveB:
            F::remove_logger(st->b);
            w.events.push_back("removeB");
            break;
          case GetA:
          {
            L* g = F::get_logger("A");
            w.events.push_back(std::string("getA ") + (g ? "found" : "null"));
            break;
          }
          case GetSinkS1:
          {
            auto p = F::get_sink("S1");
            auto q = F::template create_or_get_sink<RecSink>("S1", 99);
            if (p.get() != q.get()) w.fail("lookup-not-idempotent", "create_or_get_sink(\"S1\") and get_sink(\"S1\") returned different sinks");
            w.events.push_back("getsink");
            break;
          }
          case CreateSinkS1Again:
          {
            auto q = F::template create_or_get_sink<RecSink>("S1", 98);
            if (q.get() != st->b->get_sinks()[0].get()) w.fail("lookup-not-idempotent", "create_or_get_sink(\"S1\") created a second sink");
            w.events.push_back("createsink-again");
            break;
          }
          case CreateGetLoggerBAgain:
          {
            L* g = F::create_or_get_logger("B", st->b->get_sinks());
            if (g != st->b) w.fail("lookup-not-idempotent", "create_or_get_logger(\"B\") returned a different logger");
            w.events.push_back("createlogger-again");
            break;
          }
          }
        }
        point();
      });
  sc.check = [](World& w, Scenario const&)
  {
    // expected deliveries per sink
    std::map<int, std::map<int, std::vector<std::string>>> exp; // sink -> thread -> ids
    bool a_removed_last = false, b_removed = false;
    std::set<int> sinks_of_live_a = {1, 2};
    for (auto const& e : w.events)
    {
      std::istringstream is(e);
      std::string k, id;
      is >> k >> id;
      if (k == "logA")
      {
        std::string g, gen, sw, sinks;
        is >> g >> gen >> sw >> sinks;
        int t = atoi(id.c_str());
        size_t p = 0;
        sinks_of_live_a.clear();
        while (p < sinks.size())
        {
          int sidx = atoi(sinks.c_str() + p);
          exp[sidx][t].push_back(id);
          sinks_of_live_a.insert(sidx);
          p = sinks.find(',', p) + 1;
          if (p == 0) break;
        }
        a_removed_last = false;
      }
      else if (k == "logB")
        exp[1][atoi(id.c_str())].push_back(id);
      else if (k == "removeA" || k == "removeA-blocking")
        a_removed_last = true;
      else if (k == "recreateA")
      {
        a_removed_last = false;
        sinks_of_live_a = (atoi(e.c_str() + e.rfind(' ') + 1) % 2 == 1) ? std::set<int>{3} : std::set<int>{1};
      }
      else if (k == "removeB")
        b_removed = true;
    }
    for (int s : {1, 2, 3}) check_delivery(w, s, exp[s], "statement-lost-on-logger-removal");
    // destruction: a sink is destroyed iff nothing references it any more, exactly once, and never before a statement
    // logged through a logger that owned it has been written
    for (int s : {1, 2, 3})
    {
      int destroyed = 0;
      size_t destroy_idx = 0, last_write_idx = 0, idx = 0;
      bool existed = s != 3;
      for (auto const& r : w.recs)
      {
        ++idx;
        if (r.sink != s) continue;
        existed = true;
        if (r.is_destroy)
        {
          ++destroyed;
          destroy_idx = idx;
        }
        else if (!r.is_flush)
          last_write_idx = idx;
      }
      for (auto const& e : w.events)
        if (e.rfind("recreateA gen 1", 0) == 0 && s == 3) existed = true;
      if (!existed) continue;
      bool referenced = false;
      if (!a_removed_last && sinks_of_live_a.count(s)) referenced = true;
      if (s == 1 && !b_removed) referenced = true;
      if (destroyed > 1) w.fail("sink-destroyed-twice", "sink " + std::to_string(s));
      if (destroyed == 1 && last_write_idx > destroy_idx) w.fail("sink-used-after-destruction", "sink " + std::to_string(s) + " received a statement after it was destroyed");
      if (referenced && destroyed) w.fail("sink-destroyed-while-referenced", "sink " + std::to_string(s) + " was destroyed although a live logger still owns it");
      if (!referenced && !destroyed) w.fail("sink-not-destroyed", "sink " + std::to_string(s) + " is no longer referenced by any logger or by the user but was not destroyed after the backend drained");
    }
    for (auto const& n : w.notes)
      if (n.find("Quill INFO") == std::string::npos) w.fail("unexpected-backend-error", n);
    if (w.vars.count("stall")) w.fail("operation-never-returns", "a frontend operation (remove_logger_blocking / log call) never returns although the backend keeps polling");
  };
  return sc;
}

int main(int argc, char** argv)
{
  std::map<std::string, opx::ScenarioFactory> table;
  table["c17.ub"] = make_c17<OptUB>;
  return opx::main_entry(argc, argv, table);
}
