// Engine B "opx": operation-level schedule explorer over the real quill frontend + backend.
//
//  * Every execution runs in a forked child: real frontend pthreads (real thread-local contexts, real thread exit) and
//    one backend pthread driving the real BackendWorker through ManualBackendWorker::poll_one().
//  * A controller (the child's main thread) owns a baton: exactly one actor runs at a time; actors hand the baton back
//    at *points*: frontend op boundaries, the backend's guarded yield hooks QUILL_VERIF_YIELD(1..4) and poll
//    boundaries, and every interposed sleep / yield (retry loops become waiting steps).
//  * Time is virtual: clock_gettime / nanosleep / clock_nanosleep / sched_yield are interposed in this executable.
//  * The parent enumerates schedules by DFS with prefix replay, bounded by the number of preemptions, running up to
//    W children concurrently; every violation is re-executed from its recorded schedule before it is reported.
//
// A scenario TU includes this header, defines scenarios and calls opx::main_entry(argc, argv, table).
#pragma once
#include "quill/Backend.h"
#include "quill/Frontend.h"
#include "quill/LogMacros.h"
#include "quill/Logger.h"
#include "quill/UserClockSource.h"
#include "quill/backend/ManualBackendWorker.h"
#include "quill/sinks/Sink.h"

#include "vf_out.h"

#include <algorithm>
#include <atomic>
#include <cerrno>
#include <fcntl.h>
#include <csignal>
#include <cstring>
#include <ctime>
#include <functional>
#include <linux/futex.h>
#include <map>
#include <memory>
#include <poll.h>
#include <pthread.h>
#include <set>
#include <string>
#include <sys/syscall.h>
#include <sys/wait.h>
#include <unistd.h>
#include <vector>

namespace opx
{
// ------------------------------------------------------------------------------------------------------------
// baton

inline void futex_wait(std::atomic<int>* a, int val) { syscall(SYS_futex, reinterpret_cast<int*>(a), FUTEX_WAIT_PRIVATE, val, nullptr, nullptr, 0); }
inline void futex_wake(std::atomic<int>* a) { syscall(SYS_futex, reinterpret_cast<int*>(a), FUTEX_WAKE_PRIVATE, 1, nullptr, nullptr, 0); }

enum class AState : int
{
  Ready,    // at a point, can continue
  Waiting,  // inside a retry / idle loop: enabled again only after another actor has stepped
  Done
};

struct Actor
{
  int id{0};
  bool is_backend{false};
  std::string name;
  std::atomic<int> go{0};
  AState state{AState::Ready};
  unsigned long long wait_stamp{0}; // global step count when it started waiting
  int last_point{0};
  bool made_progress{true}; // backend: its fingerprint changed since its previous point
  pthread_t th{};
  std::function<void()> body;
};

struct PointRec
{
  uint8_t n_enabled;
  uint8_t chosen;
  uint8_t cur_enabled; // the previously running actor was still Ready (switching away = preemption)
  uint8_t actor;       // actor chosen
  uint8_t point;       // point id the chosen actor was at
};

struct Ctl
{
  std::vector<std::unique_ptr<Actor>> actors;
  std::atomic<int> ctl{0};
  unsigned long long step{0};
  unsigned long long progress_stamp{0}; // step number of the latest step that ended with the actor not waiting
  std::vector<int> prefix;          // choices to replay
  std::vector<int> prefix_enabled;  // expected number of enabled actors at each replayed point (0 = unknown)
  std::vector<PointRec> trace;
  bool nondet{false};
  std::string nondet_msg;
  bool draining{false};
  bool stall{false};
  std::string stall_msg;
  int max_points{4000};
  bool overflow{false};
  // virtual clock
  uint64_t vclock_ns{1718451898ull * 1000000000ull};
  uint64_t clock_tick_ns{1};
  uint64_t sleep_advance_ns{0}; // virtual time that passes in every interposed sleep (at least the requested duration)
  bool split_frontend_clock{false};
  uint32_t enabled_hooks{0xffffffffu};
  bool dtor_yield{false}; // the backend may be preempted inside a recording sink's destructor
};

extern Ctl* g_ctl;
extern thread_local Actor* tl_actor;

inline void actor_yield(int point_id, AState st)
{
  Actor* a = tl_actor;
  a->state = st;
  a->last_point = point_id;
  if (st == AState::Waiting) a->wait_stamp = g_ctl->step;
  g_ctl->ctl.store(1, std::memory_order_release);
  futex_wake(&g_ctl->ctl);
  if (st == AState::Done) return;
  while (a->go.load(std::memory_order_acquire) == 0) futex_wait(&a->go, 0);
  a->go.store(0, std::memory_order_relaxed);
  a->state = AState::Ready;
}

// scheduling point of a frontend script (between two operations)
inline void point(int id = 100)
{
  if (tl_actor && !g_ctl->draining) actor_yield(id, AState::Ready);
}
// a frontend thread that stays alive until the end of the execution (its thread-local context stays valid)
inline void park()
{
  if (!tl_actor) return;
  std::atomic<int> never{0};
  actor_yield(998, AState::Done);
  while (true) futex_wait(&never, 0);
}
// a retry loop iteration: the actor cannot make progress by itself
inline void wait_point(int id = 200)
{
  if (tl_actor && !g_ctl->draining) actor_yield(id, AState::Waiting);
}

// ------------------------------------------------------------------------------------------------------------
// recording

struct Rec
{
  int sink;
  std::string logger;
  int level;
  std::string msg;
  std::string statement;
  uint64_t ts;
  std::string thread_id;
  unsigned long long step;
  bool is_flush{false};
  bool is_destroy{false};
  std::string nargs; // "k=v,k=v" of the named arguments handed to the sink
};

struct World;
extern World* g_world;

struct World
{
  quill::ManualBackendWorker* worker{nullptr};
  quill::BackendOptions backend_options;
  std::vector<Rec> recs;
  std::vector<std::string> notes; // error notifier messages
  std::map<std::string, long> vars; // free-form scenario bookkeeping (written by actors between points)
  std::vector<std::string> events;  // free-form scenario event log (op results, probes)
  std::string violation_kind, violation_detail;
  void fail(std::string kind, std::string detail)
  {
    if (violation_kind.empty())
    {
      violation_kind = std::move(kind);
      violation_detail = std::move(detail);
    }
  }
  std::vector<Rec const*> of_sink(int s) const
  {
    std::vector<Rec const*> r;
    for (auto const& x : recs)
      if (x.sink == s && !x.is_flush && !x.is_destroy) r.push_back(&x);
    return r;
  }
};

class RecSink : public quill::Sink
{
public:
  explicit RecSink(int id, std::optional<quill::PatternFormatterOptions> o = std::nullopt) : quill::Sink(std::move(o)), _id(id) {}
  ~RecSink() override
  {
    // user code runs here on the backend thread (a logger was erased): optional scheduling point 6
    if (g_ctl && tl_actor && tl_actor->is_backend && !g_ctl->draining && (g_ctl->enabled_hooks & (1u << 6)) && g_ctl->dtor_yield)
      actor_yield(6, AState::Ready);
    if (g_world)
    {
      Rec r{_id, "", 0, "", "", 0, "", g_ctl ? g_ctl->step : 0, false, true};
      g_world->recs.push_back(r);
    }
  }
  std::function<void(int /*nth write*/, std::string_view /*message*/)> on_write; // fault injection hook (may throw)
  std::function<void(int /*nth flush*/)> on_flush;
  int writes{0}, flushes{0};

  void write_log(quill::MacroMetadata const*, uint64_t ts, std::string_view thread_id, std::string_view, std::string const&,
                 std::string_view logger, quill::LogLevel level, std::string_view, std::string_view,
                 std::vector<std::pair<std::string, std::string>> const* na, std::string_view msg, std::string_view statement) override
  {
    ++writes;
    _dirty = true;
    if (on_write) on_write(writes, msg);
    std::string nas;
    if (na)
      for (auto const& kv : *na) nas += kv.first + "=" + kv.second + ",";
    g_world->recs.push_back(Rec{_id, std::string(logger), static_cast<int>(level), std::string(msg), std::string(statement), ts,
                                std::string(thread_id), g_ctl->step, false, false, nas});
  }
  void flush_sink() override
  {
    // like a stream sink: a flush with nothing written since the previous one is a no-op (and leaves no mark)
    if (!_dirty) return;
    ++flushes;
    if (on_flush) on_flush(flushes);
    _dirty = false;
    g_world->recs.push_back(Rec{_id, "", 0, "", "", 0, "", g_ctl->step, true, false});
  }

private:
  int _id;
  bool _dirty{false};
};

// ------------------------------------------------------------------------------------------------------------
// scenario

struct Scenario
{
  std::string name;
  // configuration knobs (scenario specific meaning), filled from --cfg k=v,k=v
  std::map<std::string, long> cfg;
  long c(char const* k, long def = 0) const
  {
    auto it = cfg.find(k);
    return it == cfg.end() ? def : it->second;
  }
  std::function<void(World&, Scenario const&)> setup;                       // child main thread, before any actor runs
  std::vector<std::function<void(World&, Scenario const&)>> frontends;      // one pthread each
  std::function<void(World&, Scenario const&)> before_drain;                // controller, after all frontends are Done
  std::function<void(World&, Scenario const&)> check;                       // after the drain; calls w.fail(...)
  uint32_t hooks{0xffffffffu}; // bit p enables backend yield hook p
  bool split_frontend_clock{false};
  bool backend_preemptible{true};
};

using ScenarioFactory = std::function<Scenario(std::map<std::string, long> const&)>;

// ------------------------------------------------------------------------------------------------------------
// child side

struct ChildResult
{
  std::vector<PointRec> trace;
  std::string verdict; // ok | violation | stall | livelock | nondet | overflow | crash | hang
  std::string kind, detail;
  uint64_t outcome_hash{0};
  std::string events;
};

void* actor_trampoline(void* p);
int run_child(Scenario const& sc, std::vector<int> const& prefix, std::vector<int> const& prefix_enabled, int out_fd);
int main_entry(int argc, char** argv, std::map<std::string, ScenarioFactory> const& table);
} // namespace opx
