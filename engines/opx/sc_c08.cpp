// C08: dropping queues - a statement is delivered intact or reported dropped, never both.
#include "sc_common.h"

using namespace sc;

enum OpKind
{
  Small,
  Half,
  Over,
  Flush,
  InitBt,
  BtLog,
  FlushBt,
  RemoveB
};

static std::vector<std::vector<OpKind>> shape(long s)
{
  switch (s)
  {
  case 0: return {{Small, Half, Half, Small}};
  case 1: return {{Small, Over, Small, Flush}};
  case 2: return {{Half, Half, Over}, {Small, Flush}};
  case 3: return {{Over}, {Small, Flush}};
  case 4: return {{InitBt, BtLog, Half, Half, FlushBt, Small}};
  case 5: return {{Half, Half, RemoveB}, {Small}};
  case 6: return {{Half, Half, Half}, {Half, Half}};
  case 7: return {{Over, Small}, {Over, Flush}};
  default: return {{Small}};
  }
}

// a script as a number in base 9: digit d (1..8) = OpKind d-1, most significant digit first
static std::vector<OpKind> decode_script(long code)
{
  std::vector<OpKind> rev;
  while (code > 0)
  {
    if (code % 9) rev.push_back(static_cast<OpKind>(code % 9 - 1));
    code /= 9;
  }
  return std::vector<OpKind>(rev.rbegin(), rev.rend());
}

template <typename Opt>
static Scenario make_c08(std::map<std::string, long> const& cfg)
{
  using F = FrontendImpl<Opt>;
  using L = LoggerImpl<Opt>;
  constexpr bool bounded = Opt::queue_type == QueueType::BoundedDropping;
  Scenario sc;
  auto sh = std::make_shared<std::vector<std::vector<OpKind>>>(shape(cfg.count("shape") ? cfg.at("shape") : 0));
  if (cfg.count("shape") && cfg.at("shape") < 0)
  {
    sh->clear();
    for (char const* k : {"t1", "t2"})
      if (cfg.count(k) && cfg.at(k) > 0) sh->push_back(decode_script(cfg.at(k)));
  }
  auto la = std::make_shared<L*>(nullptr);
  auto lb = std::make_shared<L*>(nullptr);
  sc.setup = [la, lb](World& w, Scenario const& s)
  {
    w.backend_options.transit_event_buffer_initial_capacity = static_cast<size_t>(s.c("tbuf", 2));
    auto s1 = std::make_shared<RecSink>(1);
    auto s2 = std::make_shared<RecSink>(2);
    *la = F::create_or_get_logger("A", {s1}, PatternFormatterOptions{"%(message)"}, ClockSourceType::System);
    *lb = F::create_or_get_logger("B", {s2}, PatternFormatterOptions{"%(message)"}, ClockSourceType::System);
  };
  for (size_t t = 0; t < sh->size(); ++t)
    sc.frontends.push_back(
      [t, sh, la, lb](World& w, Scenario const& s)
      {
        int const tid = static_cast<int>(t) + 1;
        int seq = 0;
        L* l = *la;
        for (OpKind op : (*sh)[t])
        {
          point();
          ++seq;
          std::string const id = std::to_string(tid) + "." + std::to_string(seq);
          if (op == Small || op == Half || op == Over)
          {
            size_t const padn = op == Small ? 0 : op == Half ? 84 : 300;
            std::string res;
            try
            {
              // every other statement passes its padding as C strings (string-length cache), the rest as a string_view
              // cstr=1: the padding travels as C strings (per-thread string-length cache), else as a string_view
              res = (s.c("cstr", 0) ? log_id_c(l, tid, seq, padn > 4 ? padn - 1 : padn) : log_id(l, tid, seq, padn)) ? "true" : "false";
            }
            catch (QuillError const&)
            {
              res = "threw";
            }
            w.events.push_back("log " + id + " " + (op == Small ? "small" : op == Half ? "half" : "over") + " " + res);
          }
          else if (op == Flush)
          {
            l->flush_log();
            // at this instant everything this thread logged successfully before must be at the sink
            size_t delivered = 0;
            for (auto const* r : w.of_sink(1))
              if (atoi(id_of(r->msg).c_str()) == tid) ++delivered;
            w.events.push_back("flush " + id + " returned; own delivered " + std::to_string(delivered));
          }
          else if (op == InitBt)
          {
            l->init_backtrace(2);
            w.events.push_back("initbt " + id);
          }
          else if (op == BtLog)
          {
            static constexpr MacroMetadata md{"sc.cpp:2", "fn", "{}.{}|bt", nullptr, LogLevel::Backtrace, MacroMetadata::Event::Log};
            bool ok = l->template log_statement<false, false>(LogLevel::None, &md, tid, seq);
            w.events.push_back("bt " + id + " " + (ok ? "true" : "false"));
          }
          else if (op == FlushBt)
          {
            l->flush_backtrace();
            w.events.push_back("flushbt " + id);
          }
          else if (op == RemoveB)
          {
            F::remove_logger_blocking(*lb);
            w.events.push_back(std::string("removeB ") + id + " returned; get_logger(B) " + (F::get_logger("B") ? "non-null" : "null"));
          }
        }
        point();
      });
  sc.check = [](World& w, Scenario const&)
  {
    // expected deliveries per thread, in order: ordinary statements that returned true; backtrace statements replayed
    // by the flush_backtrace that follows them
    std::map<int, std::vector<std::string>> exp;
    long falses = 0, attempted = 0, threw = 0;
    std::map<int, std::vector<std::string>> held;
    // backtrace operations are issued by one thread per script set (the enumeration skips the others), so that the
    // program order of that thread is the order in which the backend sees them
    bool bt_ready = false;
    long bt_before_init = 0;
    for (auto const& e : w.events)
    {
      std::istringstream is(e);
      std::string kind, id, a, b;
      is >> kind >> id >> a >> b;
      int t = atoi(id.c_str());
      if (kind == "log")
      {
        ++attempted;
        if (b == "true")
          exp[t].push_back(id);
        else if (b == "false")
          ++falses;
        else
        {
          ++threw;
          if (!(Opt::queue_type == QueueType::UnboundedDropping && a == "over"))
            w.fail("unexpected-throw", "log call " + id + " (" + a + ") threw");
        }
      }
      else if (kind == "initbt")
        bt_ready = true; // same capacity every time: a repeated init keeps what is stored (BacktraceStorage::set_capacity)
      else if (kind == "bt")
      {
        // a backtrace statement is a log statement: it may be dropped and then counts as discarded
        ++attempted;
        if (a == "false")
          ++falses;
        else if (!bt_ready)
          ++bt_before_init; // documented misuse: reported through the notifier, nothing stored
        else
        {
          held[t].push_back(id);
          if (held[t].size() > 2) held[t].erase(held[t].begin());
        }
      }
      else if (kind == "flushbt")
      {
        for (auto const& h : held[t]) exp[t].push_back(h);
        held[t].clear();
      }
      else if (kind == "removeB" && e.find("non-null") != std::string::npos)
        w.fail("control-request-without-effect", "remove_logger_blocking returned but get_logger still finds the logger");
      else if (kind == "flush")
      {
        // own statements that returned true before the flush must have been delivered when it returned
        size_t want = 0;
        for (auto const& e2 : w.events)
        {
          if (&e2 == &e) break;
          std::istringstream is2(e2);
          std::string k2, id2, a2, b2;
          is2 >> k2 >> id2 >> a2 >> b2;
          if (k2 == "log" && atoi(id2.c_str()) == t && b2 == "true") ++want;
        }
        size_t got = static_cast<size_t>(atol(e.substr(e.rfind(' ') + 1).c_str()));
        if (got < want) w.fail("flush-returned-early", e + " but " + std::to_string(want) + " were accepted before");
      }
    }
    check_delivery(w, 1, exp, "delivered-vs-result-mismatch");
    // delivered statements are complete and uncorrupted: "<id>|<padding of one repeated letter>[ccc]"
    for (auto const* r : w.of_sink(1))
    {
      std::string const& m = r->msg;
      size_t bar = m.find('|');
      if (bar == std::string::npos || m.find("|bt") != std::string::npos) continue;
      std::string body = m.substr(bar + 1);
      bool ok = true;
      if (!body.empty() && body[0] == 'c')
      {
        // C-string form: n x 'c' followed by "ccc": only c's, and the length must be one of the legal ones
        for (char ch : body)
          if (ch != 'c') ok = false;
        if (!(body.size() == 3 || body.size() == 83 + 3 || body.size() == 299 + 3)) ok = false;
      }
      else
      {
        for (char ch : body)
          if (ch != 'p') ok = false;
        if (!(body.size() == 0 || body.size() == 84 || body.size() == 300)) ok = false;
      }
      if (!ok) w.fail("delivered-statement-corrupted", "sink received '" + m.substr(0, 60) + "' (" + std::to_string(body.size()) + " padding bytes)");
    }
    if (bounded)
    {
      long reported = 0;
      for (auto const& n : w.notes)
      {
        size_t p = n.find("Dropped ");
        if (p != std::string::npos) reported += atol(n.c_str() + p + 8);
      }
      if (reported != falses)
        w.fail("drop-count-mismatch", "notifier reported " + std::to_string(reported) + " dropped statements, " + std::to_string(falses) + " log calls returned false");
    }
    long bt_notes = 0;
    for (auto const& n : w.notes)
      if (n.find("init_backtrace(...) needs to be called first") != std::string::npos)
        ++bt_notes;
      else if (n.find("Quill INFO") == std::string::npos)
        w.fail("unexpected-backend-error", n);
    if (bt_notes != bt_before_init)
      w.fail("unexpected-backend-error", std::to_string(bt_notes) + " 'init_backtrace needs to be called first' reports for " + std::to_string(bt_before_init) +
               " backtrace statements accepted before init_backtrace");
    w.vars["attempted"] = attempted;
    if (w.vars.count("stall")) w.fail("control-request-never-completes", "a control request (flush / backtrace / removal) never completes although the backend keeps polling");
  };
  return sc;
}

int main(int argc, char** argv)
{
  std::map<std::string, opx::ScenarioFactory> table;
  table["c08.bd"] = make_c08<OptBD>;
  table["c08.ud"] = make_c08<OptUD>;
  return opx::main_entry(argc, argv, table);
}
