// helpers shared by the opx scenarios
#pragma once
#include "opx.h"
#include "opx_impl.h"

#include <sstream>

namespace sc
{
using namespace quill;
using opx::point;
using opx::RecSink;
using opx::Scenario;
using opx::World;

struct OptUB
{
  static constexpr QueueType queue_type = QueueType::UnboundedBlocking;
  static constexpr size_t initial_queue_capacity = 256;
  static constexpr uint32_t blocking_queue_retry_interval_ns = 800;
  static constexpr size_t unbounded_queue_max_capacity = 1024;
  static constexpr HugePagesPolicy huge_pages_policy = HugePagesPolicy::Never;
};
struct OptBB
{
  static constexpr QueueType queue_type = QueueType::BoundedBlocking;
  static constexpr size_t initial_queue_capacity = 256;
  static constexpr uint32_t blocking_queue_retry_interval_ns = 800;
  static constexpr size_t unbounded_queue_max_capacity = 1024;
  static constexpr HugePagesPolicy huge_pages_policy = HugePagesPolicy::Never;
};
struct OptBD
{
  static constexpr QueueType queue_type = QueueType::BoundedDropping;
  static constexpr size_t initial_queue_capacity = 256;
  static constexpr uint32_t blocking_queue_retry_interval_ns = 800;
  static constexpr size_t unbounded_queue_max_capacity = 1024;
  static constexpr HugePagesPolicy huge_pages_policy = HugePagesPolicy::Never;
};
struct OptUD
{
  static constexpr QueueType queue_type = QueueType::UnboundedDropping;
  static constexpr size_t initial_queue_capacity = 128;
  static constexpr uint32_t blocking_queue_retry_interval_ns = 800;
  static constexpr size_t unbounded_queue_max_capacity = 256;
  static constexpr HugePagesPolicy huge_pages_policy = HugePagesPolicy::Never;
};

struct TickClock : public UserClockSource
{
  uint64_t now() const override
  {
    struct timespec ts;
    clock_gettime(CLOCK_REALTIME, &ts);
    return static_cast<uint64_t>(ts.tv_sec) * 1000000000ull + static_cast<uint64_t>(ts.tv_nsec);
  }
};

// a statement carries its identity "<thread>.<seq>" in front of an optional padding
static char const PAD[4096] = {};
inline std::string_view pad(size_t n)
{
  static std::string p(4096, 'p');
  return std::string_view{p.data(), n};
}

template <typename L>
inline bool log_id(L* l, int thread, int seq, size_t padding = 0)
{
  static constexpr MacroMetadata md{"sc.cpp:1", "fn", "{}.{}|{}", nullptr, LogLevel::Info, MacroMetadata::Event::Log};
  return l->template log_statement<false, false>(LogLevel::None, &md, thread, seq, pad(padding));
}

// same, with the padding passed as a C string (exercises the per-thread string-length cache)
inline char const* pad_c(size_t n)
{
  static std::map<size_t, std::string> bufs;
  auto it = bufs.find(n);
  if (it == bufs.end()) it = bufs.emplace(n, std::string(n, 'c')).first;
  return it->second.c_str();
}
template <typename L>
inline bool log_id_c(L* l, int thread, int seq, size_t padding = 0)
{
  static constexpr MacroMetadata md{"sc.cpp:2", "fn", "{}.{}|{}{}", nullptr, LogLevel::Info, MacroMetadata::Event::Log};
  // two C strings of different lengths: 3 bytes and `padding` bytes
  return l->template log_statement<false, false>(LogLevel::None, &md, thread, seq, pad_c(padding), pad_c(3));
}

inline std::string id_of(std::string const& msg) { return msg.substr(0, msg.find('|')); }

// exactly-once + per-thread order for one sink, given the ids expected there (in issue order per thread)
inline void check_delivery(World& w, int sink, std::map<int, std::vector<std::string>> const& expected_per_thread, char const* what)
{
  std::map<int, std::vector<std::string>> got;
  for (auto const* r : w.of_sink(sink))
  {
    std::string id = id_of(r->msg);
    int t = atoi(id.c_str());
    got[t].push_back(id);
  }
  for (auto const& kv : expected_per_thread)
  {
    auto it = got.find(kv.first);
    std::vector<std::string> g = it == got.end() ? std::vector<std::string>{} : it->second;
    if (g != kv.second)
    {
      std::string gs, ws;
      for (auto const& x : g) gs += x + " ";
      for (auto const& x : kv.second) ws += x + " ";
      w.fail(std::string(what), "sink " + std::to_string(sink) + " thread " + std::to_string(kv.first) + " got [" + gs + "] want [" + ws + "]");
      return;
    }
  }
  for (auto const& kv : got)
    if (!expected_per_thread.count(kv.first) && !kv.second.empty())
    {
      w.fail(std::string(what), "sink " + std::to_string(sink) + " received statements of unexpected thread " + std::to_string(kv.first));
      return;
    }
}

inline std::vector<std::string>& g_world_events() { return opx::g_world->events; }

inline size_t context_count() { return detail::ThreadContextManager::instance()._thread_contexts.size(); }
} // namespace sc
