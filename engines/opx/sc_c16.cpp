// C16 (c): level / threshold / filter changes interleaved with logging from two threads.
#include "sc_common.h"

#include "quill/filters/Filter.h"

using namespace sc;

struct RejectOddSeq : public Filter
{
  RejectOddSeq() : Filter("oddseq") {}
  bool filter(MacroMetadata const*, uint64_t, std::string_view, std::string_view, std::string_view, LogLevel, std::string_view m,
              std::string_view) noexcept override
  {
    // message "t.s|": reject odd s
    std::string s(m);
    size_t dot = s.find('.');
    return (atoi(s.c_str() + dot + 1) % 2) == 0;
  }
};

template <typename L>
static void log_at(L* l, int level, int tid, int seq, int* evaluated)
{
  auto arg = [&] { ++*evaluated; return seq; };
  switch (level)
  {
  case 3: LOG_DEBUG(l, "{}.{}|", tid, arg()); break;
  case 4: LOG_INFO(l, "{}.{}|", tid, arg()); break;
  case 6: LOG_WARNING(l, "{}.{}|", tid, arg()); break;
  case 7: LOG_ERROR(l, "{}.{}|", tid, arg()); break;
  default: LOG_DYNAMIC(l, static_cast<LogLevel>(level), "{}.{}|", tid, arg()); break;
  }
}

template <typename Opt>
static Scenario make_c16(std::map<std::string, long> const& cfg)
{
  using F = FrontendImpl<Opt>;
  using L = LoggerImpl<Opt>;
  Scenario sc;
  auto lg = std::make_shared<L*>(nullptr);
  auto s1 = std::make_shared<std::shared_ptr<RecSink>>();
  auto s2 = std::make_shared<std::shared_ptr<RecSink>>();
  long const change = cfg.count("change") ? cfg.at("change") : 0; // 0 logger level, 1 sink-1 threshold, 2 add filter to sink 2, 3 all three
  sc.setup = [lg, s1, s2](World& w, Scenario const& s)
  {
    w.backend_options.transit_event_buffer_initial_capacity = static_cast<size_t>(s.c("tbuf", 1));
    *s1 = std::make_shared<RecSink>(1);
    *s2 = std::make_shared<RecSink>(2, PatternFormatterOptions{"OVR %(log_level)|%(message)"});
    *lg = F::create_or_get_logger("A", {*s1, *s2}, PatternFormatterOptions{"%(log_level_short_code)|%(message)"}, ClockSourceType::System);
    (*lg)->set_log_level(LogLevel::Debug);
  };
  // levels used by the two logging threads
  static int const LV[2][3] = {{4, 7, 3}, {6, 4, 8}}; // Info Error Debug / Warning Info Critical(dynamic)
  for (int t = 0; t < 2; ++t)
    sc.frontends.push_back(
      [t, lg](World& w, Scenario const& s)
      {
        for (int q = 0; q < s.c("logs", 2); ++q)
        {
          point();
          int const level = LV[t][q];
          int const logger_level = static_cast<int>((*lg)->get_log_level());
          int ev = 0;
          log_at(*lg, level, t + 1, q + 1, &ev);
          bool const want = level >= logger_level;
          if ((ev != 0) != want) w.fail("argument-evaluation", "statement " + std::to_string(t + 1) + "." + std::to_string(q + 1) + " level " + std::to_string(level) +
                                                                 " logger level " + std::to_string(logger_level) + " evaluated=" + std::to_string(ev));
          w.events.push_back(std::string(want ? "enq " : "skip ") + std::to_string(t + 1) + "." + std::to_string(q + 1) + " level " + std::to_string(level));
        }
        point();
      });
  sc.frontends.push_back(
    [lg, s1, s2, change](World& w, Scenario const&)
    {
      if (change == 0 || change == 3)
      {
        point();
        (*lg)->set_log_level(LogLevel::Warning);
        w.events.push_back("set logger level 6");
      }
      if (change == 1 || change == 3)
      {
        point();
        (*s1)->set_log_level_filter(LogLevel::Error);
        w.events.push_back("set s1 threshold 7");
      }
      if (change == 2 || change == 3)
      {
        point();
        (*s2)->add_filter(std::make_unique<RejectOddSeq>());
        w.events.push_back("add s2 filter");
      }
      point();
    });
  sc.check = [change](World& w, Scenario const&)
  {
    bool const thr_changes = change == 1 || change == 3, filt_changes = change == 2 || change == 3;
    for (auto const& e : w.events)
    {
      if (e.rfind("enq ", 0) != 0 && e.rfind("skip ", 0) != 0) continue;
      std::istringstream is(e);
      std::string k, id, lw;
      int level;
      is >> k >> id >> lw >> level;
      int const seq = atoi(id.c_str() + id.find('.') + 1);
      bool const enq = k == "enq";
      for (int sink : {1, 2})
      {
        int n = 0;
        opx::Rec const* rec = nullptr;
        for (auto const* r : w.of_sink(sink))
          if (id_of(r->msg) == id)
          {
            ++n;
            rec = r;
          }
        // must / must-not / either, by what is known independently of when the backend dispatched it
        bool must = enq, must_not = !enq;
        if (sink == 1 && enq)
        {
          if (thr_changes)
          {
            must = level >= 7;       // passes both the old (TraceL3) and the new (Error) threshold
            must_not = false;        // below Error: depends on dispatch time
          }
        }
        if (sink == 2 && enq)
        {
          if (filt_changes && (seq % 2) != 0)
          {
            must = false; // odd: written only if dispatched before the filter was added
            must_not = false;
          }
        }
        if (n > 1) w.fail("duplicated", "statement " + id + " written " + std::to_string(n) + " times to sink " + std::to_string(sink));
        if (must && n == 0) w.fail("missing-at-sink", "statement " + id + " (level " + std::to_string(level) + ") not written to sink " + std::to_string(sink));
        if (must_not && n != 0) w.fail("written-although-filtered", "statement " + id + " (level " + std::to_string(level) + ") written to sink " + std::to_string(sink));
        if (rec)
        {
          if (rec->level != level) w.fail("reported-level", "statement " + id + " reported with level " + std::to_string(rec->level) + ", given " + std::to_string(level));
          static char const* const CODE[9] = {"T3", "T2", "T1", "D", "I", "N", "W", "E", "C"};
          static char const* const NAME[9] = {"TRACE_L3", "TRACE_L2", "TRACE_L1", "DEBUG", "INFO", "NOTICE", "WARNING", "ERROR", "CRITICAL"};
          std::string const want_line = sink == 1 ? std::string(CODE[level]) + "|" + id + "|\n" : "OVR " + std::string(NAME[level]) + "|" + id + "|\n";
          if (rec->statement != want_line) w.fail("line-pattern", "sink " + std::to_string(sink) + " line '" + rec->statement + "' expected '" + want_line + "'");
        }
      }
    }
  };
  return sc;
}

int main(int argc, char** argv)
{
  std::map<std::string, opx::ScenarioFactory> table;
  table["c16.ub"] = make_c16<OptUB>;
  return opx::main_entry(argc, argv, table);
}
