// C20 (exited threads drained then reclaimed; shrinking loses nothing) and C09 end-to-end (a blocked call resumes; no
// stall / rejection on an empty queue) scenarios for Engine B.
#include "sc_common.h"

#include <thread>

using namespace sc;

struct OptBB1024
{
  static constexpr QueueType queue_type = QueueType::BoundedBlocking;
  static constexpr size_t initial_queue_capacity = 1024;
  static constexpr uint32_t blocking_queue_retry_interval_ns = 800;
  static constexpr size_t unbounded_queue_max_capacity = 1024;
  static constexpr HugePagesPolicy huge_pages_policy = HugePagesPolicy::Never;
};
struct OptBD1024
{
  static constexpr QueueType queue_type = QueueType::BoundedDropping;
  static constexpr size_t initial_queue_capacity = 1024;
  static constexpr uint32_t blocking_queue_retry_interval_ns = 800;
  static constexpr size_t unbounded_queue_max_capacity = 1024;
  static constexpr HugePagesPolicy huge_pages_policy = HugePagesPolicy::Never;
};
struct OptUB1024 // already at its maximum capacity: cannot grow
{
  static constexpr QueueType queue_type = QueueType::UnboundedBlocking;
  static constexpr size_t initial_queue_capacity = 1024;
  static constexpr uint32_t blocking_queue_retry_interval_ns = 800;
  static constexpr size_t unbounded_queue_max_capacity = 1024;
  static constexpr HugePagesPolicy huge_pages_policy = HugePagesPolicy::Never;
};
struct OptUD1024
{
  static constexpr QueueType queue_type = QueueType::UnboundedDropping;
  static constexpr size_t initial_queue_capacity = 1024;
  static constexpr uint32_t blocking_queue_retry_interval_ns = 800;
  static constexpr size_t unbounded_queue_max_capacity = 1024;
  static constexpr HugePagesPolicy huge_pages_policy = HugePagesPolicy::Never;
};
struct OptUBGrow
{
  static constexpr QueueType queue_type = QueueType::UnboundedBlocking;
  static constexpr size_t initial_queue_capacity = 128;
  static constexpr uint32_t blocking_queue_retry_interval_ns = 800;
  static constexpr size_t unbounded_queue_max_capacity = 4096;
  static constexpr HugePagesPolicy huge_pages_policy = HugePagesPolicy::Never;
};

// ---- C20 (a): short-lived threads + one live thread ------------------------------------------------------
template <typename Opt>
static Scenario make_c20_exit(std::map<std::string, long> const& cfg)
{
  using F = FrontendImpl<Opt>;
  using L = LoggerImpl<Opt>;
  Scenario sc;
  long const nshort = cfg.count("short") ? cfg.at("short") : 2;
  long const live_logs = cfg.count("live") ? cfg.at("live") : 1;
  auto lg = std::make_shared<L*>(nullptr);
  sc.setup = [lg](World& w, Scenario const& s)
  {
    w.backend_options.transit_event_buffer_initial_capacity = static_cast<size_t>(s.c("tbuf", 2));
    auto s1 = std::make_shared<RecSink>(1);
    *lg = F::create_or_get_logger("A", {s1}, PatternFormatterOptions{"%(message)"}, ClockSourceType::System);
  };
  for (long t = 0; t < nshort; ++t)
    sc.frontends.push_back(
      [t, lg](World& w, Scenario const& s)
      {
        int const tid = static_cast<int>(t) + 1;
        for (int q = 1; q <= s.c("logs", 1); ++q)
        {
          point();
          log_id(*lg, tid, q);
          w.events.push_back("done " + std::to_string(tid) + "." + std::to_string(q));
        }
        point();
      });
  sc.frontends.push_back(
    [lg, live_logs, nshort](World& w, Scenario const&)
    {
      int const tid = static_cast<int>(nshort) + 1;
      for (int q = 1; q <= live_logs; ++q)
      {
        point();
        log_id(*lg, tid, q);
        w.events.push_back("done " + std::to_string(tid) + "." + std::to_string(q));
      }
      point();
      opx::park(); // stays alive
    });
  sc.check = [live_logs](World& w, Scenario const&)
  {
    std::map<int, std::vector<std::string>> exp;
    for (auto const& e : w.events)
      if (e.rfind("done ", 0) == 0)
      {
        std::string id = e.substr(5);
        exp[atoi(id.c_str())].push_back(id);
      }
    check_delivery(w, 1, exp, "lost-duplicated-or-reordered");
    size_t const want = live_logs > 0 ? 1 : 0;
    if (context_count() != want)
      w.fail("contexts-not-reclaimed", std::to_string(context_count()) + " thread contexts retained, " + std::to_string(want) + " live thread(s) have logged");
  };
  return sc;
}

// ---- C20 (b): N threads start, log once and exit between two backend idle periods, two cycles -----------------
template <typename Opt>
static Scenario make_c20_sweep(std::map<std::string, long> const&)
{
  using F = FrontendImpl<Opt>;
  using L = LoggerImpl<Opt>;
  Scenario sc;
  auto lg = std::make_shared<L*>(nullptr);
  sc.setup = [lg](World&, Scenario const&)
  {
    auto s1 = std::make_shared<RecSink>(1);
    *lg = F::create_or_get_logger("A", {s1}, PatternFormatterOptions{"%(message)"}, ClockSourceType::System);
  };
  sc.backend_preemptible = false;
  sc.frontends.push_back(
    [lg](World& w, Scenario const& s)
    {
      long const n = s.c("n", 10);
      for (int cycle = 0; cycle < 2; ++cycle)
      {
        point();
        // one atomic step: n threads are created, log once and exit; the backend does not run in between
        for (long i = 0; i < n; ++i)
        {
          std::thread t([&, i] { log_id(*lg, cycle + 1, static_cast<int>(i) + 1); });
          t.join();
        }
        w.events.push_back("cycle " + std::to_string(cycle) + " spawned " + std::to_string(n));
        // wait until the backend has drained and reclaimed (a leak shows up as a stall here)
        int guard = 0;
        while (context_count() != 0 && guard++ < 50) opx::wait_point();
        w.events.push_back("cycle " + std::to_string(cycle) + " contexts " + std::to_string(context_count()));
      }
      point();
    });
  sc.check = [](World& w, Scenario const& s)
  {
    long const n = s.c("n", 10);
    std::map<int, std::vector<std::string>> exp;
    for (int cycle = 1; cycle <= 2; ++cycle)
      for (long i = 1; i <= n; ++i) exp[cycle].push_back(std::to_string(cycle) + "." + std::to_string(i));
    // per "thread id" = cycle here; order across different OS threads is by timestamp = creation order
    check_delivery(w, 1, exp, "lost-duplicated-or-reordered");
    if (context_count() != 0)
      w.fail("contexts-not-reclaimed",
             std::to_string(context_count()) + " thread contexts retained after " + std::to_string(n) + " threads exited between two idle periods (x2 cycles)");
  };
  return sc;
}

// ---- C20 (c): shrink --------------------------------------------------------------------------------------
static Scenario make_c20_shrink(std::map<std::string, long> const&)
{
  using F = FrontendImpl<OptUBGrow>;
  using L = LoggerImpl<OptUBGrow>;
  Scenario sc;
  auto lg = std::make_shared<L*>(nullptr);
  sc.setup = [lg](World& w, Scenario const& s)
  {
    w.backend_options.transit_event_buffer_initial_capacity = static_cast<size_t>(s.c("tbuf", 1));
    auto s1 = std::make_shared<RecSink>(1);
    *lg = F::create_or_get_logger("A", {s1}, PatternFormatterOptions{"%(message)"}, ClockSourceType::System);
  };
  sc.frontends.push_back(
    [lg](World& w, Scenario const& s)
    {
      int seq = 0;
      long const burst = s.c("burst", 6);
      long const target = s.c("target", 128);
      point();
      for (long i = 0; i < burst; ++i)
      {
        log_id(*lg, 1, ++seq, 60); // ~ 108 bytes each: grows 128 -> 256 -> 512 ...
        w.events.push_back("done 1." + std::to_string(seq));
        if (i == burst / 2) point();
      }
      size_t const before = F::get_thread_local_queue_capacity();
      point();
      F::shrink_thread_local_queue(static_cast<size_t>(target));
      size_t const after = F::get_thread_local_queue_capacity();
      w.events.push_back("shrink " + std::to_string(before) + " -> " + std::to_string(after) + " target " + std::to_string(target));
      bool const should = static_cast<size_t>(target) <= (before >> 1);
      if (should && after != static_cast<size_t>(target)) w.fail("shrink-no-effect", "capacity " + std::to_string(after) + " after shrink(" + std::to_string(target) + ") from " + std::to_string(before));
      if (!should && after != before) w.fail("shrink-changed-capacity", "capacity " + std::to_string(after) + " after refused shrink(" + std::to_string(target) + ") from " + std::to_string(before));
      point();
      for (long i = 0, n = s.c("after", 2); i < n; ++i)
      {
        log_id(*lg, 1, ++seq, 10);
        w.events.push_back("done 1." + std::to_string(seq));
        point();
      }
      w.vars["shrunk"] = should ? 1 : 0;
      if (s.c("park", 0)) opx::park(); // stays alive: its context (and backend buffer) can be inspected after the drain
    });
  sc.check = [](World& w, Scenario const& s)
  {
    std::map<int, std::vector<std::string>> exp;
    for (auto const& e : w.events)
      if (e.rfind("done ", 0) == 0) exp[1].push_back(e.substr(5));
    check_delivery(w, 1, exp, "lost-duplicated-or-reordered");
    size_t const want_ctx = s.c("park", 0) ? 1 : 0;
    if (context_count() != want_ctx) w.fail("contexts-not-reclaimed", std::to_string(context_count()) + " contexts retained, expected " + std::to_string(want_ctx));
    // (whether the backend also shrinks its own buffer for the thread is not part of the property: a first version of this
    // check demanded it and raised a false alarm - the request is only honoured when that buffer is empty at the right time)
  };
  return sc;
}

// ---- C09: history of small statements, fully consumed, then a statement of a given size -----------------------
template <typename Opt>
static Scenario make_c09(std::map<std::string, long> const&)
{
  using F = FrontendImpl<Opt>;
  using L = LoggerImpl<Opt>;
  constexpr bool dropping = Opt::queue_type == QueueType::BoundedDropping || Opt::queue_type == QueueType::UnboundedDropping;
  Scenario sc;
  auto lg = std::make_shared<L*>(nullptr);
  sc.setup = [lg](World& w, Scenario const& s)
  {
    w.backend_options.transit_event_buffer_initial_capacity = static_cast<size_t>(s.c("tbuf", 256));
    w.backend_options.transit_events_soft_limit = static_cast<size_t>(s.c("soft", 4096));
    w.backend_options.transit_events_hard_limit = static_cast<size_t>(s.c("hard", 32768));
    auto s1 = std::make_shared<RecSink>(1);
    *lg = F::create_or_get_logger("A", {s1}, PatternFormatterOptions{"%(message)"}, ClockSourceType::System);
  };
  sc.frontends.push_back(
    [lg](World& w, Scenario const& s)
    {
      long const pre = s.c("pre", 1);       // earlier small statements
      long const prepad = s.c("prepad", 0); // their padding
      long const size = s.c("size", 1000);  // encoded size of the final statement
      int seq = 0;
      point();
      for (long i = 0; i < pre; ++i)
      {
        bool ok = log_id(*lg, 1, ++seq, static_cast<size_t>(prepad));
        if (ok) w.events.push_back("done 1." + std::to_string(seq));
        if (s.c("consume_each", 1)) { int g = 0; while (w.recs.size() < static_cast<size_t>(seq) && g++ < 50) opx::wait_point(); }
      }
      // everything ahead has been consumed: the queue is empty and the backend idle
      {
        int g = 0;
        while (w.of_sink(1).size() < static_cast<size_t>(pre) && g++ < 50) opx::wait_point();
      }
      point();
      // header 32 + int 4 + int 4 + (len 4 + padding)
      long const padding = size - 44;
      bool ok = log_id(*lg, 1, ++seq, static_cast<size_t>(padding < 0 ? 0 : padding));
      w.events.push_back(std::string(ok ? "done" : "rejected") + " 1." + std::to_string(seq) + " size " + std::to_string(size));
      if (dropping && !ok) w.fail("fitting-statement-rejected-on-empty-queue", "statement of " + std::to_string(size) + " bytes dropped although the queue (capacity 1024) is empty");
      point();
    });
  sc.check = [](World& w, Scenario const&)
  {
    std::map<int, std::vector<std::string>> exp;
    for (auto const& e : w.events)
      if (e.rfind("done ", 0) == 0) exp[1].push_back(e.substr(5, e.find(' ', 5) - 5));
    check_delivery(w, 1, exp, "lost-duplicated-or-reordered");
  };
  return sc;
}

int main(int argc, char** argv)
{
  std::map<std::string, opx::ScenarioFactory> table;
  table["c20.exit.ub"] = make_c20_exit<OptUB>;
  table["c20.exit.bb"] = make_c20_exit<OptBB>;
  table["c20.sweep"] = make_c20_sweep<OptUB>;
  table["c20.shrink"] = make_c20_shrink;
  table["c09.bb"] = make_c09<OptBB1024>;
  table["c09.bd"] = make_c09<OptBD1024>;
  table["c09.ub"] = make_c09<OptUB1024>;
  table["c09.ud"] = make_c09<OptUD1024>;
  return opx::main_entry(argc, argv, table);
}
