// Implementation part of Engine B (included once by every scenario TU, after opx.h).
#pragma once
#include "opx.h"

namespace opx
{
Ctl* g_ctl = nullptr;
World* g_world = nullptr;
thread_local Actor* tl_actor = nullptr;

// ------------------------------------------------------------------------------------------------------------
// progress fingerprint of the backend (private fields read through -fno-access-control)

inline uint64_t progress_hash()
{
  using namespace quill::detail;
  uint64_t h = 1469598103934665603ull;
  auto mix = [&h](uint64_t v)
  {
    h ^= v;
    h *= 1099511628211ull;
  };
  BackendWorker* bw = g_world->worker->_backend_worker;
  mix(bw->_active_thread_contexts_cache.size());
  for (ThreadContext* tc : bw->_active_thread_contexts_cache)
  {
    if (tc->has_unbounded_queue_type())
    {
      auto& q = tc->get_spsc_queue_union().unbounded_spsc_queue;
      mix(reinterpret_cast<uintptr_t>(q._consumer));
      mix(q._consumer->bounded_queue._reader_pos);
    }
    else
      mix(tc->get_spsc_queue_union().bounded_spsc_queue._reader_pos);
    if (tc->_transit_event_buffer)
    {
      mix(tc->_transit_event_buffer->_reader_pos);
      mix(tc->_transit_event_buffer->_writer_pos);
      mix(tc->_transit_event_buffer->_capacity);
    }
  }
  mix(g_world->recs.size());
  mix(g_world->notes.size());
  mix(LoggerManager::instance()._loggers.size());
  mix(ThreadContextManager::instance()._thread_contexts.size());
  return h;
}

static uint64_t g_last_backend_hash = 0;

inline bool backend_all_empty()
{
  return g_world->worker->_backend_worker->_check_frontend_queues_and_cached_transit_events_empty();
}

// ------------------------------------------------------------------------------------------------------------
// actors

struct DoneSentinel
{
  // constructed first on every frontend thread, therefore destroyed after quill's thread-local context:
  // "Done" is signalled only once the thread's exit (context invalidation) has really happened
  ~DoneSentinel()
  {
    if (tl_actor && !tl_actor->is_backend) actor_yield(999, AState::Done);
  }
};

inline void* actor_trampoline(void* p)
{
  Actor* a = static_cast<Actor*>(p);
  tl_actor = a;
  static thread_local DoneSentinel sentinel;
  (void)sentinel;
  while (a->go.load(std::memory_order_acquire) == 0) futex_wait(&a->go, 0);
  a->go.store(0, std::memory_order_relaxed);
  a->body();
  if (a->is_backend) actor_yield(999, AState::Done);
  return nullptr;
}

inline void backend_body(Scenario const& sc)
{
  World& w = *g_world;
  w.worker->init(w.backend_options);
  bool livelock = false;
  while (!g_ctl->draining)
  {
    uint64_t const h0 = progress_hash();
    w.worker->poll_one();
    if (g_ctl->draining) break;
    uint64_t const h1 = progress_hash();
    tl_actor->made_progress = (h1 != g_last_backend_hash);
    g_last_backend_hash = h1;
    if (h0 == h1)
      wait_point(11); // idle poll: nothing the backend can do until somebody else acts (or time passes)
    else
      point(10);
  }
  // deterministic drain: let the grace period elapse, poll until two consecutive polls change nothing and all is empty
  g_ctl->vclock_ns += static_cast<uint64_t>(w.backend_options.log_timestamp_ordering_grace_period.count()) * 1000ull + 1000000ull;
  // first quill's own drain (ManualBackendWorker::poll: "polls until all queues are empty"; bounded here by virtual time),
  // then the harness's: if quill reports "everything empty" and a further poll still delivers something, the library's
  // drain - the same emptiness check ends Backend::stop()'s - returns with accepted statements pending
  auto writes = [&w]
  {
    size_t k = 0;
    for (auto const& r : w.recs)
      if (!r.is_flush && !r.is_destroy) ++k;
    return k;
  };
  if (sc.c("exitdrain", 0))
    w.worker->_backend_worker->_exit(); // the shutdown drain (Backend::stop(), ~ManualBackendWorker) instead of poll()
  else
    w.worker->poll(std::chrono::microseconds{50});
  bool const quill_says_empty = w.worker->_backend_worker->_check_frontend_queues_and_cached_transit_events_empty();
  size_t const writes_after_quill_drain = writes();
  int idle = 0, n = 0;
  while (idle < 2 && n < 10000)
  {
    uint64_t const h0 = progress_hash();
    w.worker->poll_one();
    uint64_t const h1 = progress_hash();
    idle = (h0 == h1) ? idle + 1 : 0;
    if (idle >= 2 && !backend_all_empty() && sc.c("allow_nonempty_drain", 0) == 0)
    {
      // nothing moves although something is pending: let more virtual time pass a few times, then call it a livelock
      g_ctl->vclock_ns += 1000000000ull;
      if (n > 200) break;
      idle = 0;
    }
    ++n;
  }
  if (n >= 10000 || !backend_all_empty()) livelock = (sc.c("allow_nonempty_drain", 0) == 0);
  if (livelock) w.vars["livelock"] = 1;
  w.vars["drain_polls"] = n;
  if (quill_says_empty && writes() != writes_after_quill_drain)
    w.vars["quill_drain_incomplete"] = static_cast<long>(writes() - writes_after_quill_drain);
}
} // namespace opx

// ------------------------------------------------------------------------------------------------------------
// the guarded source hook + libc interposition (this executable only)

extern "C" void quill_verif_yield(int p) noexcept
{
  using namespace opx;
  if (!tl_actor || !tl_actor->is_backend || !g_ctl || g_ctl->draining) return;
  if (!(g_ctl->enabled_hooks & (1u << p))) return;
  uint64_t const h = progress_hash();
  tl_actor->made_progress = (h != g_last_backend_hash);
  g_last_backend_hash = h;
  actor_yield(p, AState::Ready);
}

extern "C" int clock_gettime(clockid_t id, struct timespec* ts)
{
  using namespace opx;
  if (!g_ctl) return static_cast<int>(syscall(SYS_clock_gettime, id, ts));
  uint64_t const t = (g_ctl->vclock_ns += g_ctl->clock_tick_ns);
  ts->tv_sec = static_cast<time_t>(t / 1000000000ull);
  ts->tv_nsec = static_cast<long>(t % 1000000000ull);
  if (g_ctl->split_frontend_clock && tl_actor && !tl_actor->is_backend && id == CLOCK_REALTIME && !g_ctl->draining)
    actor_yield(150, AState::Ready); // "stamp" and "enqueue" of a log call become two steps
  return 0;
}
extern "C" int nanosleep(const struct timespec* req, struct timespec* rem)
{
  using namespace opx;
  if (g_ctl && tl_actor)
  {
    uint64_t const asked = req ? static_cast<uint64_t>(req->tv_sec) * 1000000000ull + static_cast<uint64_t>(req->tv_nsec) : 0;
    g_ctl->vclock_ns += std::max(asked, g_ctl->sleep_advance_ns);
    if (!g_ctl->draining) actor_yield(201, AState::Waiting);
    return 0;
  }
  return static_cast<int>(syscall(SYS_nanosleep, req, rem));
}
extern "C" int clock_nanosleep(clockid_t id, int flags, const struct timespec* req, struct timespec* rem)
{
  using namespace opx;
  if (g_ctl && tl_actor)
  {
    if (!(flags & TIMER_ABSTIME))
    {
      uint64_t const asked = req ? static_cast<uint64_t>(req->tv_sec) * 1000000000ull + static_cast<uint64_t>(req->tv_nsec) : 0;
      g_ctl->vclock_ns += std::max(asked, g_ctl->sleep_advance_ns);
    }
    else
      g_ctl->vclock_ns += g_ctl->sleep_advance_ns;
    if (!g_ctl->draining) actor_yield(202, AState::Waiting);
    return 0;
  }
  return static_cast<int>(syscall(SYS_clock_nanosleep, id, flags, req, rem));
}
extern "C" int sched_yield(void)
{
  using namespace opx;
  if (g_ctl && tl_actor)
  {
    if (!g_ctl->draining) actor_yield(203, AState::Waiting);
    return 0;
  }
  return static_cast<int>(syscall(SYS_sched_yield));
}

namespace opx
{
// ------------------------------------------------------------------------------------------------------------
// controller (child main thread)

inline void write_all(int fd, std::string const& s)
{
  size_t off = 0;
  while (off < s.size())
  {
    ssize_t n = ::write(fd, s.data() + off, s.size() - off);
    if (n <= 0) break;
    off += static_cast<size_t>(n);
  }
}

inline std::string one_line(std::string s)
{
  for (auto& c : s)
    if (c == '\n' || c == '\r') c = ' ';
  return s;
}

inline int run_child(Scenario const& sc, std::vector<int> const& prefix, std::vector<int> const& prefix_enabled, int out_fd)
{
  alarm(static_cast<unsigned>(sc.c("child_timeout_s", 30)));
  g_ctl = new Ctl;
  g_world = new World;
  Ctl& C = *g_ctl;
  World& W = *g_world;
  C.prefix = prefix;
  C.prefix_enabled = prefix_enabled;
  C.split_frontend_clock = sc.split_frontend_clock;
  C.sleep_advance_ns = static_cast<uint64_t>(sc.c("sleepadv_ns", 0));
  C.dtor_yield = sc.c("dtor_yield", 0) != 0;
  C.enabled_hooks = sc.backend_preemptible ? sc.hooks : 0u;
  W.backend_options.error_notifier = [](std::string const& s) { g_world->notes.push_back(s); };
  W.backend_options.log_timestamp_ordering_grace_period = std::chrono::microseconds{0};
  W.backend_options.sink_min_flush_interval = std::chrono::milliseconds{0};
  W.worker = quill::Backend::acquire_manual_backend_worker();
  if (sc.setup) sc.setup(W, sc);

  // actors: 0 = backend, 1.. = frontends
  {
    auto b = std::make_unique<Actor>();
    b->id = 0;
    b->is_backend = true;
    b->name = "B";
    b->body = [&sc] { backend_body(sc); };
    C.actors.push_back(std::move(b));
  }
  for (size_t i = 0; i < sc.frontends.size(); ++i)
  {
    auto a = std::make_unique<Actor>();
    a->id = static_cast<int>(i) + 1;
    a->name = "F" + std::to_string(i + 1);
    auto fn = sc.frontends[i];
    a->body = [fn, &sc] { fn(*g_world, sc); };
    C.actors.push_back(std::move(a));
  }
  for (auto& a : C.actors) pthread_create(&a->th, nullptr, actor_trampoline, a.get());

  auto run_actor = [&C](Actor* a)
  {
    ++C.step;
    C.ctl.store(0, std::memory_order_relaxed);
    a->go.store(1, std::memory_order_release);
    futex_wake(&a->go);
    while (C.ctl.load(std::memory_order_acquire) == 0) futex_wait(&C.ctl, 0);
  };

  int cur = -1;
  size_t choice_idx = 0;
  int time_jumps = 0;
  while (true)
  {
    bool all_front_done = true;
    for (auto& a : C.actors)
      if (!a->is_backend && a->state != AState::Done) all_front_done = false;
    if (all_front_done) break;
    std::vector<int> en;
    bool cur_enabled = false;
    for (auto& a : C.actors)
    {
      // a waiting actor is enabled again only after some actor has made progress since it started waiting
      // (a futile re-check of another waiting actor does not count, otherwise two waiters would wake each other for ever)
      bool e = a->state == AState::Ready || (a->state == AState::Waiting && C.progress_stamp > a->wait_stamp);
      if (!e) continue;
      if (a->id == cur)
        cur_enabled = (a->state == AState::Ready);
      en.push_back(a->id);
    }
    // canonical order: the running actor first if it is still enabled, then ascending ids
    if (cur >= 0)
    {
      auto it = std::find(en.begin(), en.end(), cur);
      if (it != en.end())
      {
        en.erase(it);
        en.insert(en.begin(), cur);
      }
    }
    if (en.empty())
    {
      Actor* b = C.actors[0].get();
      if (b->state == AState::Waiting && time_jumps < 2)
      {
        // nobody can act: let virtual time pass (grace period, flush intervals) and give the backend another look
        C.vclock_ns += static_cast<uint64_t>(W.backend_options.log_timestamp_ordering_grace_period.count()) * 1000ull + 1000000ull;
        b->wait_stamp = 0;
        if (C.progress_stamp == 0) C.progress_stamp = 1;
        ++time_jumps;
        continue;
      }
      C.stall = true;
      for (auto& a : C.actors)
        if (a->state == AState::Waiting) C.stall_msg += a->name + "@" + std::to_string(a->last_point) + " ";
      break;
    }
    int c = 0;
    if (en.size() > 1)
    {
      if (choice_idx < C.prefix.size())
      {
        c = C.prefix[choice_idx];
        if (c >= static_cast<int>(en.size()) ||
            (choice_idx < C.prefix_enabled.size() && C.prefix_enabled[choice_idx] != 0 && C.prefix_enabled[choice_idx] != static_cast<int>(en.size())))
        {
          C.nondet = true;
          C.nondet_msg = "replay diverged at choice " + std::to_string(choice_idx) + ": enabled=" + std::to_string(en.size());
          break;
        }
      }
      ++choice_idx;
      Actor* chosen = C.actors[static_cast<size_t>(en[static_cast<size_t>(c)])].get();
      C.trace.push_back(PointRec{static_cast<uint8_t>(en.size()), static_cast<uint8_t>(c), static_cast<uint8_t>(cur_enabled ? 1 : 0),
                                 static_cast<uint8_t>(chosen->id), static_cast<uint8_t>(chosen->last_point > 255 ? 255 : chosen->last_point)});
      if (static_cast<int>(C.trace.size()) > C.max_points)
      {
        C.overflow = true;
        break;
      }
    }
    Actor* a = C.actors[static_cast<size_t>(en[static_cast<size_t>(c)])].get();
    run_actor(a);
    if (getenv("OPX_TRACE"))
      fprintf(stderr, "step %llu: %s -> point %d state %d | enabled %zu choice %d | recs %zu events %zu t=%llu\n", C.step, a->name.c_str(), a->last_point,
              static_cast<int>(a->state), en.size(), c, W.recs.size(), W.events.size(), static_cast<unsigned long long>(C.vclock_ns % 100000000ull));
    bool const progressed = a->is_backend ? (a->made_progress || a->state == AState::Done) : (a->state != AState::Waiting);
    if (progressed)
    {
      C.progress_stamp = C.step;
      time_jumps = 0;
    }
    cur = a->id;
  }

  std::string verdict = "ok";
  if (C.nondet)
    verdict = "nondet";
  else if (C.overflow)
  {
    // the execution did not finish within the scheduling-point budget: some actor keeps "making progress" for ever
    // (e.g. a record that is re-read and reported on every poll).  Default: a livelock violation.
    if (sc.c("overflow_ok", 0) != 0)
      verdict = "overflow";
    else
    {
      verdict = "violation";
      W.violation_kind = "livelock";
      W.violation_detail = "execution exceeded " + std::to_string(C.max_points) + " scheduling points: the system never becomes quiescent; notifier messages so far: " +
        std::to_string(W.notes.size()) + (W.notes.empty() ? "" : " last: " + W.notes.back().substr(0, 160));
    }
  }
  if (C.stall) W.vars["stall"] = 1;
  if (!C.nondet && !C.overflow)
  {
    if (sc.before_drain) sc.before_drain(W, sc);
    // drain on the backend thread
    Actor* b = C.actors[0].get();
    C.draining = true;
    if (b->state != AState::Done) run_actor(b);
    if (sc.check) sc.check(W, sc);
    if (!W.violation_kind.empty())
      verdict = "violation";
    else if (W.vars.count("quill_drain_incomplete"))
    {
      verdict = "violation";
      W.violation_kind = "drain-returned-with-pending-statements";
      W.violation_detail = "ManualBackendWorker::poll() returned and the backend reported every queue and buffer empty, yet " +
        std::to_string(W.vars["quill_drain_incomplete"]) + " accepted statement(s) were still pending (delivered only by further polls)";
    }
    else if (W.vars.count("livelock") && sc.c("livelock_ok", 0) == 0)
    {
      verdict = "violation";
      W.violation_kind = "livelock";
      W.violation_detail = "backend does not become quiescent (pending work never completes)";
    }
    else if (C.stall && sc.c("stall_is_violation", 0) != 0)
    {
      verdict = "violation";
      W.violation_kind = "stall";
      W.violation_detail = "no actor enabled while frontends are unfinished: " + C.stall_msg;
    }
    else if (C.stall)
      verdict = "stall";
  }
  // outcome hash: what the sinks saw (sink, logger, level, message) + notifier count + events
  uint64_t h = 1469598103934665603ull;
  for (auto const& r : W.recs)
  {
    if (r.is_flush) continue;
    h = vf::fnv(r.msg, h);
    h = vf::fnv(r.logger, h);
    h ^= static_cast<uint64_t>(r.sink * 131 + r.level + (r.is_destroy ? 7777 : 0));
    h *= 1099511628211ull;
  }
  for (auto const& e : W.events) h = vf::fnv(e, h);
  h = vf::fnv(verdict, h);

  std::string out;
  for (auto const& p : C.trace)
    out += "T " + std::to_string(p.n_enabled) + " " + std::to_string(p.chosen) + " " + std::to_string(p.cur_enabled) + " " +
      std::to_string(p.actor) + " " + std::to_string(p.point) + "\n";
  out += "V " + verdict + "\n";
  out += "K " + one_line(W.violation_kind) + "\n";
  out += "D " + one_line(C.nondet ? C.nondet_msg : W.violation_detail) + "\n";
  out += "H " + std::to_string(h) + "\n";
  std::string ev;
  for (auto const& e : W.events) ev += e + ";";
  out += "E " + one_line(ev).substr(0, 1500) + "\n";
  out += "S " + std::to_string(C.step) + "\n";
  write_all(out_fd, out);
  _exit(0);
  return 0;
}

// ------------------------------------------------------------------------------------------------------------
// parent: explorer

struct Job
{
  std::vector<int> prefix;
  std::vector<int> prefix_enabled;
};

struct Running
{
  pid_t pid;
  int fd;
  Job job;
  std::string buf;
  double started;
};

inline double now_s()
{
  struct timespec ts;
  syscall(SYS_clock_gettime, CLOCK_MONOTONIC, &ts);
  return static_cast<double>(ts.tv_sec) + static_cast<double>(ts.tv_nsec) * 1e-9;
}

inline ChildResult parse_result(std::string const& buf, int status)
{
  ChildResult r;
  size_t p = 0;
  bool have_v = false;
  while (p < buf.size())
  {
    size_t nl = buf.find('\n', p);
    if (nl == std::string::npos) nl = buf.size();
    std::string line = buf.substr(p, nl - p);
    p = nl + 1;
    if (line.size() < 2) continue;
    char t = line[0];
    std::string rest = line.substr(2);
    if (t == 'T')
    {
      int a, b, c, d, e;
      if (sscanf(rest.c_str(), "%d %d %d %d %d", &a, &b, &c, &d, &e) == 5)
        r.trace.push_back(PointRec{static_cast<uint8_t>(a), static_cast<uint8_t>(b), static_cast<uint8_t>(c), static_cast<uint8_t>(d), static_cast<uint8_t>(e)});
    }
    else if (t == 'V')
    {
      r.verdict = rest;
      have_v = true;
    }
    else if (t == 'K')
      r.kind = rest;
    else if (t == 'D')
      r.detail = rest;
    else if (t == 'H')
      r.outcome_hash = strtoull(rest.c_str(), nullptr, 10);
    else if (t == 'E')
      r.events = rest;
  }
  if (!have_v)
  {
    if (WIFSIGNALED(status) && WTERMSIG(status) == SIGALRM)
    {
      r.verdict = "hang";
      r.kind = "hang";
      r.detail = "execution did not finish within the child time limit";
    }
    else
    {
      r.verdict = "crash";
      r.kind = "crash";
      r.detail = WIFSIGNALED(status) ? "child killed by signal " + std::to_string(WTERMSIG(status))
                                     : "child exited with status " + std::to_string(WEXITSTATUS(status)) + " without a verdict";
    }
  }
  return r;
}

inline Running spawn(Scenario const& sc, Job const& j)
{
  int pfd[2];
  if (pipe(pfd) != 0)
  {
    perror("pipe");
    exit(2);
  }
  fflush(stdout);
  pid_t pid = fork();
  if (pid == 0)
  {
    close(pfd[0]);
    // keep stderr quiet unless debugging
    if (!getenv("OPX_DEBUG"))
    {
      int dn = open("/dev/null", O_WRONLY);
      if (dn >= 0) dup2(dn, 2);
    }
    run_child(sc, j.prefix, j.prefix_enabled, pfd[1]);
    _exit(0);
  }
  close(pfd[1]);
  return Running{pid, pfd[0], j, "", now_s()};
}

inline ChildResult run_sync(Scenario const& sc, Job const& j)
{
  Running r = spawn(sc, j);
  char tmp[65536];
  ssize_t n;
  while ((n = read(r.fd, tmp, sizeof tmp)) > 0) r.buf.append(tmp, static_cast<size_t>(n));
  close(r.fd);
  int st = 0;
  waitpid(r.pid, &st, 0);
  return parse_result(r.buf, st);
}

inline std::string choices_str(std::vector<int> const& c0)
{
  // trailing zeros are the default continuation and carry no information
  std::vector<int> c = c0;
  while (!c.empty() && c.back() == 0) c.pop_back();
  std::string s;
  for (size_t i = 0; i < c.size(); ++i) s += (i ? "," : "") + std::to_string(c[i]);
  return s.empty() ? "0" : s;
}

inline std::string trace_pretty(std::vector<PointRec> const& t)
{
  std::string s;
  size_t shown = 0;
  for (auto const& p : t)
  {
    if (++shown > 80)
    {
      s += "... (" + std::to_string(t.size()) + " choice points)";
      break;
    }
    s += (p.actor == 0 ? std::string("B") : "F" + std::to_string(p.actor)) + "@" + std::to_string(p.point);
    if (p.chosen != 0 && p.cur_enabled) s += "!";
    s += " ";
  }
  return s;
}

inline std::string cfg_str(std::map<std::string, long> const& cfg)
{
  std::string s;
  for (auto const& kv : cfg) s += (s.empty() ? "" : ",") + kv.first + "=" + std::to_string(kv.second);
  return s;
}

inline int main_entry(int argc, char** argv, std::map<std::string, ScenarioFactory> const& table)
{
  vf::Args a{argc, argv};
  std::string const name = a.get("--scenario", "");
  auto it = table.find(name);
  if (it == table.end())
  {
    vf::J("error").s("msg", "unknown scenario " + name).emit();
    return 2;
  }
  std::map<std::string, long> cfg;
  {
    std::string cs = a.get("--cfg", "");
    size_t p = 0;
    while (p < cs.size())
    {
      size_t e = cs.find(',', p);
      if (e == std::string::npos) e = cs.size();
      std::string kv = cs.substr(p, e - p);
      size_t eq = kv.find('=');
      if (eq != std::string::npos) cfg[kv.substr(0, eq)] = atol(kv.c_str() + eq + 1);
      p = e + 1;
    }
  }
  Scenario sc = it->second(cfg);
  sc.cfg = cfg;
  sc.name = name;
  int const bound = static_cast<int>(a.geti("--bound", 2));
  int const workers = static_cast<int>(a.geti("--workers", 4));
  double const deadline = now_s() + static_cast<double>(a.geti("--deadline", 120));
  long const max_exec = a.geti("--max-exec", 100000000);

  if (char const* rp = a.get("--replay"))
  {
    Job j;
    std::string s = rp;
    size_t p = 0;
    while (p < s.size())
    {
      size_t e = s.find(',', p);
      if (e == std::string::npos) e = s.size();
      if (e > p) j.prefix.push_back(atoi(s.substr(p, e - p).c_str()));
      p = e + 1;
    }
    ChildResult r1 = run_sync(sc, j), r2 = run_sync(sc, j);
    if (r1.outcome_hash != r2.outcome_hash || r1.verdict != r2.verdict)
      vf::J("error").s("msg", "NONDETERMINISM: the same schedule gave two different outcomes").emit();
    else if (r1.verdict != "ok" && r1.verdict != "stall")
      vf::J("viol").s("kind", r1.kind).s("detail", r1.detail).s("scenario", name).s("cfg", cfg_str(cfg)).s("case", choices_str(j.prefix))
        .s("schedule", trace_pretty(r1.trace)).s("events", r1.events).emit();
    vf::J("note").s("msg", "replay verdict=" + r1.verdict + " events=" + r1.events).emit();
    vf::done();
    return 0;
  }

  unsigned long long executions = 0, transitions = 0, stalls = 0, capped_bound = 0, slow_children = 0;
  std::set<uint64_t> outcomes;
  std::map<std::string, int> viol_kinds;
  size_t max_trace = 0;
  bool exhaustive = true;
  int samples = 0;

  // determinism: the default schedule twice
  {
    Job j0;
    ChildResult r1 = run_sync(sc, j0), r2 = run_sync(sc, j0);
    if (r1.outcome_hash != r2.outcome_hash || r1.verdict != r2.verdict || r1.trace.size() != r2.trace.size())
    {
      vf::J("error").s("msg", "NONDETERMINISM: default schedule of " + name + " [" + cfg_str(cfg) + "] gave two different outcomes (" + r1.verdict + "/" +
                                r2.verdict + ", " + r1.detail + " / " + r2.detail + ")").emit();
      return 2;
    }
  }

  std::vector<Job> stack;
  stack.push_back(Job{});
  std::vector<Running> running;
  bool stop_spawning = false;

  auto handle = [&](Running& run, ChildResult& r)
  {
    ++executions;
    transitions += r.trace.size();
    max_trace = std::max(max_trace, r.trace.size());
    outcomes.insert(r.outcome_hash);
    if (r.verdict == "nondet")
    {
      vf::J("error").s("msg", "NONDETERMINISM while replaying a prefix in " + name + " [" + cfg_str(cfg) + "]: " + r.detail + " prefix=" + choices_str(run.job.prefix)).emit();
      stop_spawning = true;
      exhaustive = false;
      return;
    }
    if (r.verdict == "overflow")
    {
      exhaustive = false;
      return;
    }
    if (r.verdict == "stall") ++stalls;
    std::vector<int> choices;
    for (auto const& p : r.trace) choices.push_back(p.chosen);
    // a child that died did not report its trace: its schedule is the replayed prefix followed by default choices
    if (r.trace.empty() && (r.verdict == "crash" || r.verdict == "hang")) choices = run.job.prefix;
    if (r.verdict == "hang")
    {
      // a deterministic schedule that timed out is re-run alone with a much longer limit before it is called a hang
      Scenario slow = sc;
      slow.cfg["child_timeout_s"] = 180;
      Job jr;
      jr.prefix = choices;
      ChildResult again = run_sync(slow, jr);
      if (again.verdict != "hang")
      {
        ++slow_children;
        r = again;
        choices.clear();
        for (auto const& p : r.trace) choices.push_back(p.chosen);
      }
    }
    if (r.verdict == "violation" || r.verdict == "crash" || r.verdict == "hang")
    {
      int& cnt = viol_kinds[r.kind];
      ++cnt;
      if (cnt <= 2)
      {
        // replay before report: the recorded schedule alone, with a longer limit for hangs
        Job jr;
        jr.prefix = choices;
        ChildResult again = run_sync(sc, jr);
        bool reproduced = again.verdict == r.verdict && again.kind == r.kind;
        if (!reproduced && r.verdict == "crash")
        {
          // a crash of the code under test (sanitizer report, assert, signal) can depend on the allocator's state; it is a
          // real outcome of this schedule even if a re-execution survives - try a few more times, then report it flagged
          for (int k = 0; k < 3 && !reproduced; ++k)
          {
            again = run_sync(sc, jr);
            reproduced = again.verdict == r.verdict;
          }
          if (!reproduced)
            vf::J("viol").s("kind", r.kind).s("detail", r.detail + " (crash observed once; 4 re-executions of the same schedule survived: memory-state dependent)").s("scenario", name)
              .s("cfg", cfg_str(cfg)).s("case", choices_str(choices)).s("schedule", trace_pretty(r.trace)).s("events", r.events).b("reproduced", false).emit();
        }
        if (!reproduced && r.verdict != "crash")
          vf::J("error").s("msg", "violation did not reproduce from its recorded schedule (" + r.verdict + "/" + r.kind + " vs " + again.verdict + "/" + again.kind + ")").emit();
        else if (reproduced)
          vf::J("viol").s("kind", r.kind).s("detail", r.detail).s("scenario", name).s("cfg", cfg_str(cfg)).s("case", choices_str(choices))
            .s("schedule", trace_pretty(r.trace)).s("events", r.events).i("preemptions", [&] {
              int n = 0;
              for (auto const& p : r.trace)
                if (p.cur_enabled && p.chosen != 0) ++n;
              return n;
            }()).emit();
      }
      // keep exploring siblings (other kinds may exist) but do not expand below a violating schedule
      return;
    }
    if (samples < 2 && r.trace.size() > 3 && (executions % 97) == 5)
    {
      vf::J("sample").s("scenario", name).s("cfg", cfg_str(cfg)).s("schedule", trace_pretty(r.trace)).s("events", r.events.substr(0, 300)).emit();
      ++samples;
    }
    // expand
    int pre = 0;
    size_t const from = run.job.prefix.size();
    for (size_t i = 0; i < r.trace.size(); ++i)
    {
      PointRec const& p = r.trace[i];
      if (i >= from)
      {
        int const cost_alt = pre + (p.cur_enabled ? 1 : 0);
        if (cost_alt <= bound)
        {
          for (int alt = 1; alt < p.n_enabled; ++alt)
          {
            Job j;
            j.prefix.assign(choices.begin(), choices.begin() + static_cast<long>(i));
            j.prefix.push_back(alt);
            for (size_t k = 0; k <= i; ++k) j.prefix_enabled.push_back(r.trace[k].n_enabled);
            stack.push_back(std::move(j));
          }
        }
        else if (p.n_enabled > 1)
          ++capped_bound;
      }
      if (p.cur_enabled && p.chosen != 0) ++pre;
    }
  };

  while ((!stack.empty() && !stop_spawning) || !running.empty())
  {
    while (!stop_spawning && !stack.empty() && static_cast<int>(running.size()) < workers)
    {
      if (now_s() > deadline || static_cast<long>(executions + running.size()) >= max_exec)
      {
        exhaustive = false;
        stop_spawning = true;
        break;
      }
      Job j = std::move(stack.back());
      stack.pop_back();
      running.push_back(spawn(sc, j));
    }
    if (running.empty()) break;
    std::vector<pollfd> pf;
    for (auto& r : running) pf.push_back(pollfd{r.fd, POLLIN, 0});
    ::poll(pf.data(), pf.size(), 200);
    for (size_t i = 0; i < running.size();)
    {
      bool finished = false;
      if (pf[i].revents & (POLLIN | POLLHUP | POLLERR))
      {
        char tmp[65536];
        ssize_t n = read(running[i].fd, tmp, sizeof tmp);
        if (n > 0)
          running[i].buf.append(tmp, static_cast<size_t>(n));
        else
          finished = true;
      }
      if (finished)
      {
        close(running[i].fd);
        int st = 0;
        waitpid(running[i].pid, &st, 0);
        ChildResult r = parse_result(running[i].buf, st);
        Running done = std::move(running[i]);
        running.erase(running.begin() + static_cast<long>(i));
        pf.erase(pf.begin() + static_cast<long>(i));
        handle(done, r);
      }
      else
        ++i;
    }
  }
  if (!stack.empty()) exhaustive = false;

  vf::J("stat")
    .u("executions", executions)
    .u("states", executions)
    .u("transitions", transitions)
    .u("traces_validated_against_impl", executions)
    .u("stalls_observed", stalls)
    .u("max_choice_points", max_trace)
    .u("alternatives_beyond_preemption_bound", capped_bound)
    .u("children_rerun_with_longer_time_limit", slow_children)
    .u("configurations", 1)
    .emit();
  {
    // distinct outcome hashes of this configuration, namespaced by scenario+cfg
    std::string keys = "[";
    size_t n = 0;
    uint64_t ns = vf::fnv(name + cfg_str(cfg));
    for (auto h : outcomes)
    {
      if (n++) keys += ",";
      keys += "\"" + std::to_string(h ^ ns) + "\"";
      if (n >= 500) break;
    }
    keys += "]";
    vf::J("distinct").raw("keys", keys).emit();
  }
  if (!exhaustive) vf::J("cap").s("why", name + " [" + cfg_str(cfg) + "] bound " + std::to_string(bound) + ": deadline/execution cap hit, " + std::to_string(stack.size()) + " schedules unexplored").emit();
  vf::J("note").s("msg", name + " [" + cfg_str(cfg) + "] bound=" + std::to_string(bound) + " executions=" + std::to_string(executions) + " outcomes=" + std::to_string(outcomes.size()) +
                           " stalls=" + std::to_string(stalls)).emit();
  vf::done();
  return 0;
}
} // namespace opx
