// C10: a statement that cannot be formatted or a sink that throws disturbs nothing else.
#include "sc_common.h"

#include "quill/DeferredFormatCodec.h"

using namespace sc;

struct Thrower
{
  int mode; // 1 std::runtime_error, 2 int, 3 a class not derived from std::exception
  int id;
};
struct NotStd
{
  int x;
};
template <>
struct fmtquill::formatter<Thrower>
{
  constexpr auto parse(format_parse_context& ctx) { return ctx.begin(); }
  auto format(Thrower const& t, format_context& ctx) const -> decltype(ctx.out())
  {
    if (t.mode == 1) throw std::runtime_error("formatter failed");
    if (t.mode == 2) throw 42;
    if (t.mode == 3) throw NotStd{7};
    return fmtquill::format_to(ctx.out(), "thrower{}", t.id);
  }
};
template <>
struct quill::Codec<Thrower> : quill::DeferredFormatCodec<Thrower>
{
};

// statement kinds: 0 ok, 1 run-time format string with a missing argument, 2..4 user formatter throws
// (runtime_error / int / non-std class), 5 LOG_BACKTRACE without init_backtrace, 6 ok with named arguments, 7 placeholders
// without arguments, 8..10 named arguments + throwing user formatter; a history is a number in base 16
template <typename L>
static void issue(L* l, int kind, int tid, int seq)
{
  static constexpr MacroMetadata md_ok{"sc.cpp:10", "fn", "{}.{}|ok", nullptr, LogLevel::Info, MacroMetadata::Event::Log};
  static constexpr MacroMetadata md_missing{"sc.cpp:11", "fn", "{}.{}|missing {}", nullptr, LogLevel::Info, MacroMetadata::Event::Log};
  static constexpr MacroMetadata md_thrower{"sc.cpp:12", "fn", "{}.{}|{}", nullptr, LogLevel::Info, MacroMetadata::Event::Log};
  static constexpr MacroMetadata md_bt{"sc.cpp:13", "fn", "{}.{}|bt", nullptr, LogLevel::Backtrace, MacroMetadata::Event::Log};
  static constexpr MacroMetadata md_named{"sc.cpp:14", "fn", "{t}.{s}|ok named {k}", nullptr, LogLevel::Info, MacroMetadata::Event::Log};
  static constexpr MacroMetadata md_zero{"sc.cpp:15", "fn", "{}.{}|zeroargs", nullptr, LogLevel::Info, MacroMetadata::Event::Log};
  static constexpr MacroMetadata md_named_thrower{"sc.cpp:16", "fn", "{t}.{s}|named {k}", nullptr, LogLevel::Info, MacroMetadata::Event::Log};
  switch (kind)
  {
  case 0: l->template log_statement<false, false>(LogLevel::None, &md_ok, tid, seq); break;
  case 1: l->template log_statement<false, false>(LogLevel::None, &md_missing, tid, seq); break;
  case 2:
  case 3:
  case 4: l->template log_statement<false, false>(LogLevel::None, &md_thrower, tid, seq, Thrower{kind - 1, seq}); break;
  case 5: l->template log_statement<false, false>(LogLevel::None, &md_bt, tid, seq); break;
  case 6: l->template log_statement<false, false>(LogLevel::None, &md_named, tid, seq, 77); break; // well formed, named argument
  case 8:
  case 9:
  case 10: // named arguments (formatted a second time for the key/value list) whose user formatter throws
    l->template log_statement<false, false>(LogLevel::None, &md_named_thrower, tid, seq, Thrower{kind - 7, seq});
    break;
  default: l->template log_statement<false, false>(LogLevel::None, &md_zero); break;               // placeholders but no arguments at all
  }
}

template <typename Opt>
static Scenario make_c10(std::map<std::string, long> const&)
{
  using F = FrontendImpl<Opt>;
  using L = LoggerImpl<Opt>;
  Scenario sc;
  auto la = std::make_shared<L*>(nullptr);
  auto lb = std::make_shared<L*>(nullptr);
  sc.setup = [la, lb](World& w, Scenario const& s)
  {
    w.backend_options.transit_event_buffer_initial_capacity = static_cast<size_t>(s.c("tbuf", 2));
    w.backend_options.transit_events_soft_limit = static_cast<size_t>(s.c("soft", 4096));
    w.backend_options.transit_events_hard_limit = static_cast<size_t>(s.c("hard", 32768));
    auto s1 = std::make_shared<RecSink>(1);
    auto s2 = std::make_shared<RecSink>(2);
    long const w1 = s.c("s1w", 0), f1 = s.c("s1f", 0), w2 = s.c("s2w", 0);
    s1->on_write = [w1](int n, std::string_view msg)
    {
      if (n == w1)
      {
        g_world_events().push_back("S1 threw on " + id_of(std::string(msg)));
        throw std::runtime_error("sink 1 write failed");
      }
    };
    s1->on_flush = [f1](int n)
    {
      if (n == f1)
      {
        g_world_events().push_back("S1 flush threw");
        throw std::runtime_error("sink 1 flush failed");
      }
    };
    s2->on_write = [w2](int n, std::string_view msg)
    {
      if (n == w2)
      {
        g_world_events().push_back("S2 threw on " + id_of(std::string(msg)));
        throw std::logic_error("sink 2 write failed");
      }
    };
    // logger A writes to S1 then S2; logger B to S2 only
    *la = F::create_or_get_logger("A", {s1, s2}, PatternFormatterOptions{"%(message)"}, ClockSourceType::System);
    *lb = F::create_or_get_logger("B", {s2}, PatternFormatterOptions{"%(message)"}, ClockSourceType::System);
  };
  sc.frontends.push_back(
    [la](World& w, Scenario const& s)
    {
      long h = s.c("h", 0);
      long const n = s.c("n", 3);
      for (int seq = 1; seq <= n; ++seq)
      {
        int const kind = static_cast<int>(h % 16);
        h /= 16;
        point();
        issue(*la, kind, 1, seq);
        w.events.push_back("issued 1." + std::to_string(seq) + " kind " + std::to_string(kind));
      }
      point();
      (*la)->flush_log();
      w.events.push_back("flush 1 returned");
      // at this instant: a throwing flush of sink 1 must not keep sink 2 (the sink after it) from being flushed - no
      // statement of this thread may sit in sink 2 behind its last flush mark
      {
        int unflushed = 0;
        for (auto const& r : w.recs)
        {
          if (r.sink != 2 || r.is_destroy) continue;
          if (r.is_flush)
            unflushed = 0;
          else if (atoi(id_of(r.msg).c_str()) == 1)
            ++unflushed;
        }
        if (unflushed) w.fail("flush-returned-with-unflushed-sink", "flush_log() returned with " + std::to_string(unflushed) + " statement(s) of the caller written to sink 2 but not flushed");
      }
      point();
    });
  sc.frontends.push_back(
    [lb](World& w, Scenario const& s)
    {
      if (s.c("two", 1) == 0) return;
      for (int seq = 1; seq <= 2; ++seq)
      {
        point();
        issue(*lb, 0, 2, seq);
        w.events.push_back("issued 2." + std::to_string(seq) + " kind 0");
      }
      point();
      (*lb)->flush_log();
      w.events.push_back("flush 2 returned");
      point();
    });
  sc.check = [](World& w, Scenario const& s)
  {
    std::map<int, std::vector<std::string>> ok1, ok2; // expected ok statements per sink
    std::set<std::string> s1_threw, s2_threw;
    long faults = 0;
    for (auto const& e : w.events)
    {
      if (e.rfind("S1 threw on ", 0) == 0)
      {
        s1_threw.insert(e.substr(12));
        ++faults;
      }
      if (e.rfind("S2 threw on ", 0) == 0)
      {
        s2_threw.insert(e.substr(12));
        ++faults;
      }
    }
    for (auto const& e : w.events)
      if (e == "S1 flush threw") ++faults;
    bool flush1 = false, flush2 = false;
    long format_faults = 0;
    for (auto const& e : w.events)
    {
      if (e == "flush 1 returned") flush1 = true;
      if (e == "flush 2 returned") flush2 = true;
      if (e.rfind("issued ", 0) != 0) continue;
      std::string id = e.substr(7, e.find(' ', 7) - 7);
      int const kind = atoi(e.c_str() + e.rfind(' ') + 1);
      int const t = atoi(id.c_str());
      if (kind != 0 && kind != 6)
      {
        ++format_faults;
        continue;
      }
      if (t == 1)
      {
        if (!s1_threw.count(id)) ok1[1].push_back(id);
        // S2 comes after S1 for logger A: it may miss the statement S1 threw on
        if (!s1_threw.count(id) && !s2_threw.count(id)) ok2[1].push_back(id);
      }
      else if (!s2_threw.count(id))
        ok2[2].push_back(id);
    }
    faults += format_faults;
    if (!flush1 || (s.c("two", 1) != 0 && !flush2))
      w.fail("flush-did-not-return", "flush_log() of a thread never returned although the backend keeps polling");
    // compare only the ok statements; error-text / skipped renderings of faulty statements are allowed anywhere
    auto filter_ok = [&w](int sink)
    {
      std::map<int, std::vector<std::string>> got;
      for (auto const* r : w.of_sink(sink))
      {
        if (r->msg.find("|ok") == std::string::npos) continue;
        std::string id = id_of(r->msg);
        got[atoi(id.c_str())].push_back(id);
      }
      return got;
    };
    auto cmp = [&w](int sink, std::map<int, std::vector<std::string>> const& got, std::map<int, std::vector<std::string>> const& want)
    {
      for (int t : {1, 2})
      {
        std::vector<std::string> g = got.count(t) ? got.at(t) : std::vector<std::string>{};
        std::vector<std::string> x = want.count(t) ? want.at(t) : std::vector<std::string>{};
        if (g != x)
        {
          std::string gs, xs;
          for (auto const& a : g) gs += a + " ";
          for (auto const& a : x) xs += a + " ";
          w.fail("other-statement-disturbed", "sink " + std::to_string(sink) + " thread " + std::to_string(t) + " got [" + gs + "] want [" + xs + "]");
          return;
        }
      }
    };
    if (!w.vars.count("stall"))
    {
      cmp(1, filter_ok(1), ok1);
      cmp(2, filter_ok(2), ok2);
    }
    // named arguments belong to the statement that carried them and to nothing else
    for (int sink : {1, 2})
      for (auto const* r : w.of_sink(sink))
      {
        bool const named = r->msg.find("|ok named") != std::string::npos;
        std::string const want = named ? "t=" + r->msg.substr(0, r->msg.find('.')) + ",s=" + r->msg.substr(r->msg.find('.') + 1, r->msg.find('|') - r->msg.find('.') - 1) + ",k=77," : "";
        if (r->msg.find("|ok") != std::string::npos && r->nargs != want)
          w.fail("named-args-of-another-statement", "sink " + std::to_string(sink) + " received '" + r->msg + "' with named arguments '" + r->nargs + "' expected '" + want + "'");
      }
    // faulty statements: with error text or not at all - never as garbage
    for (int sink : {1, 2})
      for (auto const* r : w.of_sink(sink))
        if (r->msg.find("|ok") == std::string::npos && r->msg.find("Could not format") == std::string::npos && r->msg.find("thrower") == std::string::npos)
          w.fail("faulty-statement-garbled", "sink " + std::to_string(sink) + " received '" + r->msg.substr(0, 80) + "'");
    // notifier: at least one message per fault, and not an unbounded stream
    long const notes = static_cast<long>(w.notes.size());
    if (faults > 0 && notes < faults) w.fail("fault-not-reported", std::to_string(notes) + " notifier messages for " + std::to_string(faults) + " faults");
    if (notes > 4 * faults + 2) w.fail("notifier-flood", std::to_string(notes) + " notifier messages for " + std::to_string(faults) + " faults");
  };
  return sc;
}

int main(int argc, char** argv)
{
  std::map<std::string, opx::ScenarioFactory> table;
  table["c10.ub"] = make_c10<OptUB>;
  return opx::main_entry(argc, argv, table);
}
