// C06 (flush_log returns only after everything earlier is written and flushed) and C05 (global timestamp order under
// the grace period) scenarios for Engine B.  Virtual time: 1 ns per clock read + explicit advance() steps.
#include "sc_common.h"

#include "quill/sinks/FileSink.h"

#include <fstream>

using namespace sc;

static uint64_t vnow() { return opx::g_ctl->vclock_ns; }
static void advance(uint64_t ns) { opx::g_ctl->vclock_ns += ns; }

// ---- C06 ------------------------------------------------------------------------------------------------------
// cfg: grace (us, 0|1), adv (units of grace/2 each frontend op lets pass before and after itself), f2 (0/1: second logging
// thread), f3 (0/1: concurrent flusher), file (0/1 real FileSink next to the recording sink), a (number of statements of F1)
template <typename Opt>
static Scenario make_c06(std::map<std::string, long> const& cfg)
{
  using F = FrontendImpl<Opt>;
  using L = LoggerImpl<Opt>;
  constexpr bool dropping = Opt::queue_type == QueueType::BoundedDropping;
  Scenario sc;
  auto la = std::make_shared<L*>(nullptr);
  auto lb = std::make_shared<L*>(nullptr);
  auto path = std::make_shared<std::string>();
  long const grace_us = cfg.count("grace") ? cfg.at("grace") : 0;
  sc.setup = [la, lb, path, grace_us](World& w, Scenario const& s)
  {
    w.backend_options.log_timestamp_ordering_grace_period = std::chrono::microseconds{grace_us};
    w.backend_options.transit_event_buffer_initial_capacity = static_cast<size_t>(s.c("tbuf", 2));
    w.backend_options.transit_events_soft_limit = static_cast<size_t>(s.c("soft", 4));
    w.backend_options.transit_events_hard_limit = static_cast<size_t>(s.c("hard", 4));
    // with a non-zero interval the idle branch does not flush the sinks on every poll: only the flush request does
    w.backend_options.sink_min_flush_interval = std::chrono::milliseconds{s.c("flushint_ms", 0)};
    auto s1 = std::make_shared<RecSink>(1);
    std::vector<std::shared_ptr<Sink>> sinks{s1};
    if (s.c("file", 0))
    {
      *path = "/dev/shm/quill-verif-c06." + std::to_string(getpid()) + ".log";
      FileSinkConfig fc;
      fc.set_open_mode('w');
      FileEventNotifier fen;
      if (s.c("file", 0) == 2)
      {
        // file = 2: the sink has a before_write hook (the sink takes a different write path; what it writes must be flushed
        // all the same)
        fen.before_write = [](std::string_view m) { return std::string{m}; };
      }
      sinks.push_back(F::template create_or_get_sink<FileSink>(*path, fc, fen));
    }
    if (s.c("layout", 0) == 1)
    {
      // each logger lists the shared sink first and a sink of its own after it: A{S1,S2}, B{S1,S3}
      auto sa = sinks, sb = sinks;
      sa.push_back(std::make_shared<RecSink>(2));
      sb.push_back(std::make_shared<RecSink>(3));
      *la = F::create_or_get_logger("A", sa, PatternFormatterOptions{"%(message)"}, ClockSourceType::System);
      *lb = F::create_or_get_logger("B", sb, PatternFormatterOptions{"%(message)"}, ClockSourceType::System);
      return;
    }
    *la = F::create_or_get_logger("A", sinks, PatternFormatterOptions{"%(message)"}, ClockSourceType::System);
    *lb = F::create_or_get_logger("B", sinks, PatternFormatterOptions{"%(message)"}, ClockSourceType::System);
  };
  uint64_t const half_grace = static_cast<uint64_t>(grace_us) * 500;

  auto flush_and_probe = [path, grace_us](World& w, Scenario const& s, L* l, int tid)
  {
    // what must be visible when flush_log() returns: own completed statements; with ordering enabled also every other
    // thread's statement whose call had completed when flush_log() was invoked
    std::vector<std::string> must;
    for (auto const& e : w.events)
      if (e.rfind("done ", 0) == 0)
      {
        std::string id = e.substr(5);
        if (atoi(id.c_str()) == tid || grace_us > 0) must.push_back(id);
      }
    l->flush_log();
    // ---- probe: runs on the caller before anything else happens; every sink of the statement's logger counts
    for (int sink : (s.c("layout", 0) == 1 ? std::vector<int>{1, 2, 3} : std::vector<int>{1}))
    {
      std::set<std::string> seen;
      size_t last_write = 0, last_flush = 0, idx = 0;
      std::vector<std::string> must_here;
      for (auto const& id : must)
        if (sink == 1 || (sink == 2) == (atoi(id.c_str()) == 1)) must_here.push_back(id); // thread 1 logs through A{S1,S2}, the others through B{S1,S3}
      for (auto const& r : w.recs)
      {
        ++idx;
        if (r.sink != sink) continue;
        if (r.is_flush)
          last_flush = idx;
        else if (!r.is_destroy)
        {
          seen.insert(id_of(r.msg));
          // only the statements that had to be visible count for the "flushed up to" clause
          if (std::find(must_here.begin(), must_here.end(), id_of(r.msg)) != must_here.end()) last_write = idx;
        }
      }
      for (auto const& id : must_here)
        if (!seen.count(id))
          w.fail("flush-returned-before-statement-written", "flush_log() of thread " + std::to_string(tid) + " returned while statement " + id +
                                                              " (completed before the flush was invoked) is not at sink " + std::to_string(sink));
      if (last_write > last_flush && !must_here.empty())
        w.fail("flush-returned-before-sink-flushed",
               "flush_log() of thread " + std::to_string(tid) + " returned but sink " + std::to_string(sink) + " was not flushed after its last write");
    }
    if (s.c("file", 0))
    {
      std::ifstream in(*path, std::ios::binary);
      std::string content((std::istreambuf_iterator<char>(in)), std::istreambuf_iterator<char>());
      for (auto const& id : must)
        if (content.find(id + "|") == std::string::npos)
          w.fail("flush-returned-before-file-readable", "statement " + id + " cannot be read from the file when flush_log() returns");
    }
    w.events.push_back("flush " + std::to_string(tid) + " returned");
  };

  sc.frontends.push_back(
    [la, half_grace, flush_and_probe](World& w, Scenario const& s)
    {
      long const adv = s.c("adv", 0);
      for (int q = 1; q <= s.c("a", 1); ++q)
      {
        point();
        advance(static_cast<uint64_t>(adv) * half_grace);
        bool ok = log_id(*la, 1, q, static_cast<size_t>(s.c("apad", 0)));
        if (ok) w.events.push_back("done 1." + std::to_string(q));
        else w.events.push_back("dropped 1." + std::to_string(q));
      }
      if (s.c("sync", 0))
      {
        // the thread idles until its earlier statements have been written (its queue is empty, the backend idle) and
        // only then flushes
        int g = 0;
        while (w.of_sink(1).size() < static_cast<size_t>(s.c("a", 1)) && g++ < 50)
        {
          advance(4 * half_grace); // it sleeps for two grace periods between two looks
          opx::wait_point();
        }
      }
      point();
      advance(static_cast<uint64_t>(adv) * half_grace);
      if (s.c("noflush", 0))
      {
        // C05 variant: an ordinary later statement instead of the flush; the oracle is the global timestamp order
        log_id(*la, 1, 99);
        w.events.push_back("done 1.99");
        advance(4 * half_grace);
        w.events.push_back("flush 1 returned");
      }
      else
        flush_and_probe(w, s, *la, 1);
      point();
    });
  if (!cfg.count("f2") || cfg.at("f2"))
    sc.frontends.push_back(
      [lb, half_grace](World& w, Scenario const& s)
      {
        long const adv = s.c("adv", 0);
        for (int q = 1; q <= s.c("b", 2); ++q)
        {
          point();
          advance(static_cast<uint64_t>(adv) * half_grace);
          bool ok = log_id(*lb, 2, q);
          if (ok) w.events.push_back("done 2." + std::to_string(q));
          advance(static_cast<uint64_t>(adv) * half_grace);
        }
        point();
      });
  if (cfg.count("f3") && cfg.at("f3"))
    sc.frontends.push_back(
      [lb, flush_and_probe](World& w, Scenario const& s)
      {
        point();
        flush_and_probe(w, s, *lb, 3);
        point();
      });
  sc.check = [path](World& w, Scenario const& s)
  {
    std::map<int, std::vector<std::string>> exp;
    for (auto const& e : w.events)
      if (e.rfind("done ", 0) == 0)
      {
        std::string id = e.substr(5);
        exp[atoi(id.c_str())].push_back(id);
      }
    check_delivery(w, 1, exp, "lost-duplicated-or-reordered");
    if (s.c("layout", 0) == 1)
    {
      std::map<int, std::vector<std::string>> ea, eb;
      for (auto const& kv : exp) (kv.first == 1 ? ea : eb)[kv.first] = kv.second;
      check_delivery(w, 2, ea, "lost-duplicated-or-reordered");
      check_delivery(w, 3, eb, "lost-duplicated-or-reordered");
    }
    if (s.c("grace", 0) > 0)
    {
      // every call here stamps and enqueues in one step, so the grace premise holds trivially: global order is due
      uint64_t prev = 0;
      std::string prev_id;
      for (auto const* r : w.of_sink(1))
      {
        if (r->ts < prev)
          w.fail("out-of-timestamp-order", "statement " + id_of(r->msg) + " (ts " + std::to_string(r->ts) + ") written after " + prev_id + " (ts " +
                                             std::to_string(prev) + ") although every statement was enqueued at its timestamp");
        prev = r->ts;
        prev_id = id_of(r->msg);
      }
    }
    bool f1 = false;
    for (auto const& e : w.events)
      if (e == "flush 1 returned") f1 = true;
    if (!f1 && !w.vars.count("stall")) w.fail("flush-did-not-return", "flush_log() never returned");
    if (w.vars.count("stall")) w.fail("flush-did-not-return", "flush_log() never returns although the backend keeps polling (no actor enabled)");
    // the flush request is never counted as dropped
    long dropped = 0, reported = 0;
    for (auto const& e : w.events)
      if (e.rfind("dropped ", 0) == 0) ++dropped;
    for (auto const& n : w.notes)
    {
      size_t p = n.find("Dropped ");
      if (p != std::string::npos) reported += atol(n.c_str() + p + 8);
    }
    if (dropping && reported != dropped)
      w.fail("flush-counted-as-dropped", "notifier reported " + std::to_string(reported) + " drops, " + std::to_string(dropped) + " ordinary statements were dropped");
    if (!path->empty()) unlink(path->c_str());
    (void)s;
  };
  return sc;
}

// ---- C05 ------------------------------------------------------------------------------------------------------
// cfg: grace (us), threads (2|3), calls (1|2), ksteps (clock actor steps of grace/2), soft, hard, tbuf
template <typename Opt>
static Scenario make_c05(std::map<std::string, long> const& cfg)
{
  using F = FrontendImpl<Opt>;
  using L = LoggerImpl<Opt>;
  Scenario sc;
  sc.split_frontend_clock = true;
  sc.hooks = (1u << 1) | (1u << 2) | (1u << 3);
  auto lg = std::make_shared<std::vector<L*>>();
  long const grace_us = cfg.count("grace") ? cfg.at("grace") : 1;
  long const threads = cfg.count("threads") ? cfg.at("threads") : 2;
  sc.setup = [lg, grace_us](World& w, Scenario const& s)
  {
    w.backend_options.log_timestamp_ordering_grace_period = std::chrono::microseconds{grace_us};
    w.backend_options.transit_event_buffer_initial_capacity = static_cast<size_t>(s.c("tbuf", 1));
    w.backend_options.transit_events_soft_limit = static_cast<size_t>(s.c("soft", 1));
    w.backend_options.transit_events_hard_limit = static_cast<size_t>(s.c("hard", 1));
    auto s1 = std::make_shared<RecSink>(1);
    lg->push_back(F::create_or_get_logger("A", {s1}, PatternFormatterOptions{"%(message)"}, ClockSourceType::System));
    lg->push_back(F::create_or_get_logger("B", {s1}, PatternFormatterOptions{"%(message)"}, ClockSourceType::System));
  };
  for (long t = 0; t < threads; ++t)
    sc.frontends.push_back(
      [t, lg](World& w, Scenario const& s)
      {
        int const tid = static_cast<int>(t) + 1;
        for (int q = 1; q <= s.c("calls", 1); ++q)
        {
          point();
          uint64_t const before = vnow();
          log_id((*lg)[static_cast<size_t>(t % 2)], tid, q); // yields once inside, right after the timestamp was taken
          // the call's timestamp is the first clock value handed out after `before`; enqueue time = now
          w.events.push_back("done " + std::to_string(tid) + "." + std::to_string(q) + " stamp " + std::to_string(before + 1) + " enq " + std::to_string(vnow()));
        }
        point();
      });
  // clock actor
  sc.frontends.push_back(
    [grace_us](World& w, Scenario const& s)
    {
      for (int k = 0; k < s.c("ksteps", 3); ++k)
      {
        point();
        advance(static_cast<uint64_t>(grace_us) * 500);
        w.events.push_back("tick");
      }
      point();
    });
  sc.check = [grace_us](World& w, Scenario const&)
  {
    uint64_t const g = static_cast<uint64_t>(grace_us) * 1000;
    bool premise = true;
    std::map<std::string, uint64_t> stamp;
    std::map<int, std::vector<std::string>> exp;
    for (auto const& e : w.events)
    {
      if (e.rfind("done ", 0) != 0) continue;
      std::istringstream is(e);
      std::string d, id, s1, s2;
      uint64_t st, en;
      is >> d >> id >> s1 >> st >> s2 >> en;
      stamp[id] = st;
      exp[atoi(id.c_str())].push_back(id);
      if (en - st > g) premise = false;
    }
    check_delivery(w, 1, exp, "lost-duplicated-or-reordered");
    // each statement carries the clock value read at the start of its call
    for (auto const* r : w.of_sink(1))
    {
      auto it = stamp.find(id_of(r->msg));
      if (it != stamp.end() && it->second != r->ts)
        w.fail("timestamp-not-the-call-start-clock", "statement " + it->first + " written with timestamp " + std::to_string(r->ts) + ", its call read " + std::to_string(it->second));
    }
    w.events.push_back(premise ? "premise true" : "premise false");
    if (!premise) return;
    uint64_t prev = 0;
    std::string prev_id;
    for (auto const* r : w.of_sink(1))
    {
      if (r->ts < prev)
      {
        w.fail("out-of-timestamp-order", "statement " + id_of(r->msg) + " (ts " + std::to_string(r->ts) + ") written after " + prev_id + " (ts " + std::to_string(prev) +
                                           ") although every statement was enqueued within the grace period");
        return;
      }
      prev = r->ts;
      prev_id = id_of(r->msg);
    }
  };
  return sc;
}

// ---- C05 with queue growth: one thread fills its first buffer exactly and continues in a grown one while the backend's
// read pass ends on the hard limit at the end of the first buffer; another thread logs a later statement
static Scenario make_c05_grow(std::map<std::string, long> const&)
{
  using F = FrontendImpl<OptUB>;
  using L = LoggerImpl<OptUB>;
  Scenario sc;
  auto lg = std::make_shared<std::vector<L*>>();
  sc.setup = [lg](World& w, Scenario const& s)
  {
    w.backend_options.log_timestamp_ordering_grace_period = std::chrono::microseconds{s.c("grace", 1)};
    w.backend_options.transit_event_buffer_initial_capacity = static_cast<size_t>(s.c("tbuf", 4));
    w.backend_options.transit_events_soft_limit = static_cast<size_t>(s.c("soft", 4));
    w.backend_options.transit_events_hard_limit = static_cast<size_t>(s.c("hard", 4));
    auto s1 = std::make_shared<RecSink>(1);
    lg->push_back(F::create_or_get_logger("A", {s1}, PatternFormatterOptions{"%(message)"}, ClockSourceType::System));
    lg->push_back(F::create_or_get_logger("B", {s1}, PatternFormatterOptions{"%(message)"}, ClockSourceType::System));
  };
  sc.frontends.push_back(
    [lg](World& w, Scenario const& s)
    {
      // 64-byte statements: four fill the 256-byte initial buffer exactly, the following ones go to a grown buffer
      point();
      for (int q = 1; q <= s.c("na", 6); ++q)
      {
        log_id((*lg)[0], 1, q, 20);
        w.events.push_back("done 1." + std::to_string(q));
        if (s.c("points", 0)) point();
      }
      point();
    });
  sc.frontends.push_back(
    [lg](World& w, Scenario const& s)
    {
      point();
      if (s.c("flush", 0))
      {
        // C06 variant: the second thread flushes; everything completed before must be at the sink when it returns
        std::vector<std::string> must;
        for (auto const& e : w.events)
          if (e.rfind("done ", 0) == 0) must.push_back(e.substr(5));
        advance(2000);
        (*lg)[1]->flush_log();
        std::set<std::string> seen;
        for (auto const* r : w.of_sink(1)) seen.insert(id_of(r->msg));
        for (auto const& id : must)
          if (!seen.count(id))
            w.fail("flush-returned-before-statement-written", "flush_log() returned while statement " + id + " (completed before the flush was invoked) is not at the sink");
        w.events.push_back("flush 2 returned");
      }
      else
      {
        log_id((*lg)[1], 2, 1);
        w.events.push_back("done 2.1");
      }
      point();
    });
  sc.check = [](World& w, Scenario const&)
  {
    std::map<int, std::vector<std::string>> exp;
    for (auto const& e : w.events)
      if (e.rfind("done ", 0) == 0)
      {
        std::string id = e.substr(5);
        exp[atoi(id.c_str())].push_back(id);
      }
    check_delivery(w, 1, exp, "lost-duplicated-or-reordered");
    uint64_t prev = 0;
    std::string prev_id;
    for (auto const* r : w.of_sink(1))
    {
      if (r->ts < prev)
        w.fail("out-of-timestamp-order", "statement " + id_of(r->msg) + " (ts " + std::to_string(r->ts) + ") written after " + prev_id + " (ts " + std::to_string(prev) +
                                           ") although every statement was enqueued at its timestamp");
      prev = r->ts;
      prev_id = id_of(r->msg);
    }
  };
  return sc;
}

int main(int argc, char** argv)
{
  std::map<std::string, opx::ScenarioFactory> table;
  table["c05.grow"] = make_c05_grow;
  table["c06.ub"] = make_c06<OptUB>;
  table["c06.bd"] = make_c06<OptBD>;
  table["c05.ub"] = make_c05<OptUB>;
  table["c05.bb"] = make_c05<OptBB>;
  return opx::main_entry(argc, argv, table);
}
