// C03 (exactly once, in thread order, across growth / limits / thread exit) and C20(a) (contexts reclaimed)
// scenarios for Engine B.
#include "sc_common.h"

using namespace sc;

// shapes: per thread a list of (logger index, padding)
struct OpSpec
{
  int logger; // 0 = A{S1,S2}, 1 = B{S1}
  int pad;
};

// a script given as a number in base 5: digits 1 = small through A, 2 = near-capacity through A, 3 = small through B,
// 4 = flush_log(); most significant digit first; 0 digits are skipped
static std::vector<OpSpec> decode_script(long code, int large)
{
  std::vector<OpSpec> rev;
  while (code > 0)
  {
    switch (code % 5)
    {
    case 1: rev.push_back({0, 0}); break;
    case 2: rev.push_back({0, large}); break;
    case 3: rev.push_back({1, 0}); break;
    case 4: rev.push_back({-1, 0}); break;
    default: break;
    }
    code /= 5;
  }
  return std::vector<OpSpec>(rev.rbegin(), rev.rend());
}

static std::vector<std::vector<OpSpec>> shape(long s, long large)
{
  int const L = static_cast<int>(large);
  switch (s)
  {
  case 0: return {{{0, 0}, {1, 0}}, {{0, 0}, {1, 0}}};
  case 1: return {{{0, 0}, {0, L}}, {{1, 0}, {0, 0}}};
  case 2: return {{{0, 0}, {1, 0}}, {{1, 0}, {0, 0}}, {{0, 0}}};
  case 3: return {{{0, L}, {0, L}, {0, L}}, {{1, 0}}};
  case 4: return {{{0, 0}, {0, 0}, {0, 0}}, {{1, L}, {0, 0}}};
  case 5: return {{{0, 0}, {1, 0}, {0, L}}, {{1, 0}, {0, L}, {1, 0}}};
  case 6: return {{{-1, 0}}, {{0, 0}, {0, 0}}};            // logger -1 = flush_log() on logger A
  case 7: return {{{0, 0}, {-1, 0}}, {{1, 0}, {0, 0}}};
  case 8: return {{{-1, 0}, {0, 0}}, {{0, 0}}, {{1, 0}}};
  default: return {{{0, 0}}, {{1, 0}}};
  }
}

template <typename Opt>
static Scenario make_c03(std::map<std::string, long> const& cfg)
{
  using F = FrontendImpl<Opt>;
  using L = LoggerImpl<Opt>;
  Scenario sc;
  auto get = [&cfg](char const* k, long d)
  {
    auto it = cfg.find(k);
    return it == cfg.end() ? d : it->second;
  };
  long const large = get("large", 180);
  auto sh = std::make_shared<std::vector<std::vector<OpSpec>>>(shape(get("shape", 0), large));
  if (get("shape", 0) < 0)
  {
    // systematically enumerated scripts instead of a hand-picked shape
    sh->clear();
    for (char const* k : {"t1", "t2", "t3"})
      if (get(k, 0) > 0) sh->push_back(decode_script(get(k, 0), static_cast<int>(large)));
  }
  auto loggers = std::make_shared<std::vector<L*>>();
  sc.setup = [loggers](World& w, Scenario const& s)
  {
    w.backend_options.transit_event_buffer_initial_capacity = static_cast<size_t>(s.c("tbuf", 2));
    w.backend_options.transit_events_soft_limit = static_cast<size_t>(s.c("soft", 2));
    w.backend_options.transit_events_hard_limit = static_cast<size_t>(s.c("hard", 4));
    auto s1 = std::make_shared<RecSink>(1);
    auto s2 = std::make_shared<RecSink>(2);
    static TickClock clock;
    loggers->push_back(F::create_or_get_logger("A", {s1, s2}, PatternFormatterOptions{"%(message)"}, ClockSourceType::System));
    loggers->push_back(F::create_or_get_logger("B", {s1}, PatternFormatterOptions{"%(message)"}, ClockSourceType::System));
  };
  for (size_t t = 0; t < sh->size(); ++t)
  {
    sc.frontends.push_back(
      [t, sh, loggers](World& w, Scenario const&)
      {
        int const tid = static_cast<int>(t) + 1;
        int seq = 0;
        for (auto const& op : (*sh)[t])
        {
          point();
          if (op.logger < 0)
          {
            (*loggers)[0]->flush_log();
            w.events.push_back("flush " + std::to_string(tid));
            continue;
          }
          ++seq;
          log_id((*loggers)[static_cast<size_t>(op.logger)], tid, seq, static_cast<size_t>(op.pad));
          // the call completed: from now on the statement is "accepted"
          w.events.push_back("done " + std::to_string(tid) + "." + std::to_string(seq) + " L" + std::to_string(op.logger));
        }
        point();
        // returning = thread exit (context invalidated before Done is signalled)
      });
  }
  sc.check = [sh](World& w, Scenario const&)
  {
    std::map<int, std::vector<std::string>> exp1, exp2;
    for (auto const& e : w.events)
    {
      if (e.rfind("done ", 0) != 0) continue;
      std::string id = e.substr(5, e.find(' ', 5) - 5);
      int t = atoi(id.c_str());
      bool const is_a = e.back() == '0';
      exp1[t].push_back(id);
      if (is_a) exp2[t].push_back(id);
    }
    check_delivery(w, 1, exp1, "lost-duplicated-or-reordered");
    check_delivery(w, 2, exp2, "lost-duplicated-or-reordered");
    // C20: all frontend threads that finished are gone; with a stall the stuck thread is still alive
    size_t alive = 0;
    if (w.vars.count("stall"))
      alive = context_count(); // not judged
    else if (context_count() != 0)
      w.fail("contexts-not-reclaimed", std::to_string(context_count()) + " thread contexts retained after every thread exited and the backend drained");
    (void)alive;
    for (auto const& n : w.notes)
      if (n.find("Quill INFO") == std::string::npos) w.fail("unexpected-backend-error", n);
  };
  return sc;
}

int main(int argc, char** argv)
{
  std::map<std::string, opx::ScenarioFactory> table;
  table["c03.ub"] = make_c03<OptUB>;
  table["c03.bb"] = make_c03<OptBB>;
  return opx::main_entry(argc, argv, table);
}
