"""Driver-side helpers for Engine B (opx) scenario executables."""
from lib import vf

FLAGS = ["-O1", "-g", "-DQUILL_VERIF=1", "-I" + vf.VERIF + "/engines/opx"]
ASAN = ["-fsanitize=address", "-fno-omit-frame-pointer"]


def build(name, src, extra=()):
    return vf.build(name, [src], FLAGS + list(extra))


def run_jobs(ctx, exe, jobs, what, explorers=4, workers=4, env=None):
    """jobs: list of dicts {scenario, cfg (dict), bound, deadline(optional), max_exec(optional)}."""
    cmds = []
    for j in jobs:
        dl = int(max(5, min(j.get("deadline", 1e9), ctx.time_left())))
        args = ["--scenario", j["scenario"], "--cfg", ",".join("%s=%s" % kv for kv in sorted(j.get("cfg", {}).items())),
                "--bound", j.get("bound", 2), "--workers", workers, "--deadline", dl]
        if "max_exec" in j:
            args += ["--max-exec", j["max_exec"]]
        cmds.append((exe, args, dl + 120, env))
    for rr in vf.run_many(cmds, max_workers=explorers):
        ctx.absorb(rr, what)


def replay(prop, exe, rep):
    rec = rep["record"]
    if "scenario" not in rec:
        print("not an opx record")
        return 2
    rr = vf.run(exe, ["--scenario", rec["scenario"], "--cfg", rec.get("cfg", ""), "--replay", rec["case"]], timeout=120)
    v = [r for r in rr.records if r.get("t") == "viol"]
    e = [r for r in rr.records if r.get("t") == "error"]
    for x in e:
        print("HARNESS-ERROR %s" % x)
    for x in v:
        print("VIOLATION property=%s replay=(given) detail=%s" % (prop, x))
    for r in rr.records:
        if r.get("t") == "note":
            print(r.get("msg"))
    return 2 if e else (1 if v else 0)
