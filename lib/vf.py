"""Shared driver plumbing for the quill verification checks.

Everything here is stdlib-only.  A property module (props/cNN.py) receives a Ctx and
  * builds harness executables from /repo's *current working tree* (content-hashed cache),
  * runs them (possibly many in parallel), parses their '@J {json}' record lines,
  * hands violations to the known-findings classifier,
  * writes /verif/evidence/<ID>.json and replay artefacts.
"""
import concurrent.futures
import fcntl
import hashlib
import threading
import json
import os
import re
import shutil
import subprocess
import sys
import time

VERIF = os.path.dirname(os.path.dirname(os.path.abspath(__file__)))
REPO = os.environ.get("VERIF_REPO", "/repo")
INCLUDE = os.path.join(REPO, "include")
BUILD = os.path.join(VERIF, "build")
NCPU = os.cpu_count() or 4

CXX = os.environ.get("VERIF_CXX", "g++")
BASE_FLAGS = ["-std=c++17", "-pthread", "-fno-access-control",
              "-I" + INCLUDE, "-I" + os.path.join(VERIF, "engines", "common"), "-w"]


class HarnessError(Exception):
    """Build failure / nondeterminism / protocol error: exit code 2, never a verdict."""


def _hash_tree(paths):
    h = hashlib.sha256()
    for root in paths:
        if os.path.isfile(root):
            files = [root]
        else:
            files = []
            for d, dn, fn in os.walk(root):
                dn.sort()
                if "__pycache__" in d:
                    continue
                for f in sorted(fn):
                    files.append(os.path.join(d, f))
        for f in files:
            h.update(f.encode())
            with open(f, "rb") as fh:
                h.update(fh.read())
    return h.hexdigest()


_tree_hash_cache = {}


def include_tree_hash():
    if "inc" not in _tree_hash_cache:
        _tree_hash_cache["inc"] = _hash_tree([os.path.join(INCLUDE, "quill")])
    return _tree_hash_cache["inc"]


def engines_hash():
    if "eng" not in _tree_hash_cache:
        _tree_hash_cache["eng"] = _hash_tree([os.path.join(VERIF, "engines")])
    return _tree_hash_cache["eng"]


_BUILD_LOCKS = {}
_BUILD_LOCKS_GUARD = threading.Lock()


def build(name, sources, flags=(), libs=(), cxx=None):
    """Compile `sources` (paths relative to /verif or absolute) into one executable.

    The cache key covers the whole quill include tree, all engine sources and the flags, so any edit
    of /repo/include or of the harnesses forces a rebuild; nothing else is cached between invocations.
    """
    cxx = cxx or CXX
    srcs = [s if os.path.isabs(s) else os.path.join(VERIF, s) for s in sources]
    gen_hash = _hash_tree([s for s in srcs if not s.startswith(os.path.join(VERIF, "engines"))])
    key = hashlib.sha256(json.dumps([include_tree_hash(), engines_hash(), gen_hash, cxx, list(flags),
                                     list(libs), srcs]).encode()).hexdigest()[:20]
    outdir = os.path.join(BUILD, key)
    exe = os.path.join(outdir, name)
    if os.path.exists(exe):
        return exe
    os.makedirs(outdir, exist_ok=True)
    # one builder per target at a time: threads of this process (setup warms several checks that share a harness) and other
    # processes (two checks started at once) wait here and then find the finished executable
    with _BUILD_LOCKS_GUARD:
        tlock = _BUILD_LOCKS.setdefault(exe, threading.Lock())
    with tlock, open(os.path.join(outdir, "." + name + ".lock"), "w") as lf:
        fcntl.flock(lf, fcntl.LOCK_EX)
        if os.path.exists(exe):
            return exe
        return _build_locked(name, srcs, flags, libs, cxx, outdir, exe)


def _build_locked(name, srcs, flags, libs, cxx, outdir, exe):
    objs = []

    def comp(src):
        obj = os.path.join(outdir, name + "." + os.path.basename(src) + ".o")
        cmd = [cxx] + BASE_FLAGS + list(flags) + ["-c", src, "-o", obj]
        r = subprocess.run(cmd, stdout=subprocess.PIPE, stderr=subprocess.STDOUT, text=True)
        if r.returncode != 0:
            raise HarnessError("compile failed: %s\n%s" % (" ".join(cmd), r.stdout[-6000:]))
        return obj

    if len(srcs) == 1:
        objs = [comp(srcs[0])]
    else:
        with concurrent.futures.ThreadPoolExecutor(max_workers=NCPU) as ex:
            objs = list(ex.map(comp, srcs))
    tmp = exe + ".tmp%d.%d" % (os.getpid(), threading.get_ident())
    cmd = [cxx] + BASE_FLAGS + list(flags) + objs + ["-o", tmp] + list(libs)
    r = subprocess.run(cmd, stdout=subprocess.PIPE, stderr=subprocess.STDOUT, text=True)
    if r.returncode != 0:
        raise HarnessError("link failed: %s\n%s" % (" ".join(cmd), r.stdout[-6000:]))
    os.replace(tmp, exe)
    for o in objs:
        try:
            os.unlink(o)
        except OSError:
            pass
    return exe


def prune_build_cache(keep=40):
    """Keep the build cache small (disk is limited): drop all but the newest `keep` entries."""
    if not os.path.isdir(BUILD):
        return
    ents = [os.path.join(BUILD, d) for d in os.listdir(BUILD)]
    ents = [d for d in ents if os.path.isdir(d)]
    ents.sort(key=lambda d: os.path.getmtime(d), reverse=True)
    for d in ents[keep:]:
        shutil.rmtree(d, ignore_errors=True)


class RunResult:
    def __init__(self):
        self.records = []
        self.rc = None
        self.timed_out = False
        self.stderr_tail = ""
        self.stdout_tail = ""
        self.args = None


def run(exe, args=(), timeout=None, env=None, cwd=None, stdin=None):
    """Run a harness; collect '@J {...}' records.  A crash / non-zero exit without a record
    explaining it is reported by the caller as a harness error or violation as appropriate."""
    e = dict(os.environ)
    if env:
        e.update(env)
    rr = RunResult()
    rr.args = [exe] + [str(a) for a in args]
    try:
        p = subprocess.run(rr.args, stdout=subprocess.PIPE, stderr=subprocess.PIPE, env=e, cwd=cwd,
                           timeout=timeout, input=stdin)
        out, err, rr.rc = p.stdout, p.stderr, p.returncode
    except subprocess.TimeoutExpired as t:
        out, err, rr.rc = t.stdout or b"", t.stderr or b"", None
        rr.timed_out = True
    out = out.decode("utf-8", "replace")
    rr.stderr_tail = err.decode("utf-8", "replace")[-3000:]
    rr.stdout_tail = out[-3000:]
    for line in out.splitlines():
        if line.startswith("@J "):
            try:
                rr.records.append(json.loads(line[3:]))
            except ValueError:
                raise HarnessError("bad record from %s: %r" % (exe, line[:300]))
    return rr


def run_many(jobs, max_workers=None):
    """jobs: list of (exe, args, timeout[, env]).  Runs them on a thread pool, returns RunResults in order."""
    def one(j):
        exe, args, timeout = j[0], j[1], j[2]
        env = j[3] if len(j) > 3 else None
        return run(exe, args, timeout=timeout, env=env)
    with concurrent.futures.ThreadPoolExecutor(max_workers=max_workers or NCPU) as ex:
        return list(ex.map(one, jobs))


# ----------------------------------------------------------------------------------------------
# known findings


def load_known_findings():
    p = os.path.join(VERIF, "known_findings.json")
    if not os.path.exists(p):
        return []
    with open(p) as fh:
        return json.load(fh)["findings"]


def _get(rec, field):
    cur = rec
    for part in field.split("."):
        if isinstance(cur, dict) and part in cur:
            cur = cur[part]
        else:
            return None
    return cur


def _cond(rec, c):
    v = _get(rec, c["field"])
    op = c.get("op", "eq")
    want = c.get("value")
    if op == "eq":
        return v == want
    if op == "ne":
        return v != want
    if op == "in":
        return v in want
    if op == "true":
        return bool(v)
    if op == "false":
        return not v
    if op == "regex":
        return isinstance(v, str) and re.search(want, v) is not None
    if op == "contains":
        return isinstance(v, (str, list)) and want in v
    if op == "gt":
        return v is not None and v > want
    if op == "ge":
        return v is not None and v >= want
    raise HarnessError("unknown match op %r" % op)


def match_finding(prop, rec, findings):
    """Return the known (not fixed) finding whose structural predicate covers this violation record."""
    for f in findings:
        if f.get("property") != prop or f.get("status") != "known":
            continue
        m = f.get("match")
        if not m:
            continue
        if all(_cond(rec, c) for c in m):
            return f
    return None


# ----------------------------------------------------------------------------------------------


class Ctx:
    def __init__(self, prop, tier, seed, level):
        self.prop = prop
        self.tier = tier
        self.seed = seed
        self.level = level
        self.t0 = time.time()
        self.stats = {}
        self.samples = []
        self.violations = []       # unknown violations (records)
        self.known_hits = {}       # key -> (finding, count, first record)
        self.assumptions = []
        self.notes = {}
        self.exhaustive = True
        self.findings = load_known_findings()
        self.deadline = None
        self.distinct = set()
        self.rule = ""
        self.replay_dir = os.path.join(VERIF, "replays", prop)

    # -- time
    def set_deadline(self, seconds):
        self.deadline = self.t0 + seconds

    def time_left(self):
        if self.deadline is None:
            return 1e9
        return self.deadline - time.time()

    # -- counters
    def add(self, key, n=1):
        self.stats[key] = self.stats.get(key, 0) + n

    def setmax(self, key, n):
        self.stats[key] = max(self.stats.get(key, n), n)

    def sample(self, s, cap=12):
        if len(self.samples) < cap:
            self.samples.append(s)

    def capped(self, why):
        self.exhaustive = False
        self.notes.setdefault("caps", []).append(why)

    # -- records from harnesses
    def absorb(self, rr, what="harness", require_done=True, crash_is_violation=True):
        """Merge the records of one harness run.  Returns True if the run ended with a 'done' record."""
        done = False
        for r in rr.records:
            t = r.get("t")
            if t == "stat":
                for k, v in r.items():
                    if k == "t":
                        continue
                    if isinstance(v, bool):
                        if k == "exhaustive" and not v:
                            self.exhaustive = False
                    elif isinstance(v, (int, float)):
                        if k.startswith("max_"):
                            self.setmax(k, v)
                        else:
                            self.add(k, v)
            elif t == "sample":
                r = dict(r)
                r.pop("t")
                self.sample(r)
            elif t == "viol":
                r = dict(r)
                r.pop("t")
                self.violation(r)
            elif t == "distinct":
                for x in r.get("keys", []):
                    self.distinct.add(x)
            elif t == "cap":
                self.capped(r.get("why", "cap"))
            elif t == "note":
                self.notes.setdefault("harness_notes", [])
                if len(self.notes["harness_notes"]) < 20:
                    self.notes["harness_notes"].append(r.get("msg"))
            elif t == "done":
                done = True
            elif t == "error":
                raise HarnessError("%s reported error: %s" % (what, r.get("msg")))
        if require_done and not done:
            if rr.timed_out:
                self.capped("%s timed out: %s" % (what, " ".join(rr.args[1:])[:200]))
            elif rr.rc is not None and (rr.rc < 0 or rr.rc in (134, 139, 1)) and crash_is_violation:
                # the harness process died while executing quill code (abort/assert/segfault/sanitizer): that is a
                # verdict about the code under test, reported with the command line as the replay handle
                self.violation({"kind": "harness-crashed", "rc": rr.rc, "harness": what,
                                "case": " ".join(rr.args[1:])[:600], "stderr": rr.stderr_tail[-600:]})
            else:
                raise HarnessError("%s ended without 'done' (rc=%s)\nargs: %s\nstdout: %s\nstderr: %s" % (
                    what, rr.rc, " ".join(rr.args), rr.stdout_tail[-1500:], rr.stderr_tail[-1500:]))
        return done

    def violation(self, rec):
        f = match_finding(self.prop, rec, self.findings)
        if f is not None:
            k = f["key"]
            if k not in self.known_hits:
                self.known_hits[k] = [f, 0, rec]
            self.known_hits[k][1] += 1
        else:
            self.violations.append(rec)

    # -- finish
    def finish(self, coverage_extra=None):
        wall = time.time() - self.t0
        cov = dict(self.stats)
        cov["samples"] = self.samples if self.samples else [{"note": "no sample recorded"}]
        cov["exhaustive"] = bool(self.exhaustive)
        if self.rule:
            cov["rule"] = self.rule
        if self.distinct:
            cov["distinct_nontrivial"] = len(self.distinct)
        cov.setdefault("evaluations", int(cov.get("executions", cov.get("states", 0))))
        cov.setdefault("distinct_nontrivial", 0)
        if self.level == "model_checking":
            cov.setdefault("states", cov.get("evaluations", 0))
            cov.setdefault("transitions", cov.get("states", 0))
            cov.setdefault("traces_validated_against_impl", cov.get("evaluations", 0))
        for k in list(cov.keys()):
            if isinstance(cov[k], float) and k not in ("wall_s",):
                cov[k] = int(cov[k])
        if coverage_extra:
            cov.update(coverage_extra)
        cov.update(self.notes)
        cov["known_findings_hit"] = {k: v[1] for k, v in self.known_hits.items()}
        ev = {
            "property_id": self.prop,
            "tier": self.tier,
            "seed": self.seed,
            "level": self.level,
            "coverage": cov,
            "assumptions": self.assumptions,
            "wall_s": round(wall, 2),
            "violations": len(self.violations),
        }
        os.makedirs(os.path.join(VERIF, "evidence"), exist_ok=True)
        tmp = os.path.join(VERIF, "evidence", self.prop + ".json.tmp")
        with open(tmp, "w") as fh:
            json.dump(ev, fh, indent=1, sort_keys=True)
            fh.write("\n")
        os.replace(tmp, os.path.join(VERIF, "evidence", self.prop + ".json"))

        for k, (f, n, rec) in sorted(self.known_hits.items()):
            print("KNOWN-FINDING: property=%s %s [%s; %d occurrence(s) this run; e.g. %s]" % (
                self.prop, f["what"], k, n, json.dumps(rec.get("case", rec), sort_keys=True)[:300]))
        rc = 0
        if self.violations:
            os.makedirs(self.replay_dir, exist_ok=True)
            seen = set()
            n = 0
            for rec in self.violations:
                sig = json.dumps(rec, sort_keys=True)
                if sig in seen:
                    continue
                seen.add(sig)
                n += 1
                if n > int(os.environ.get("VERIF_MAX_REPORT", "10")):
                    break
                path = os.path.join(self.replay_dir, "v%03d.json" % n)
                with open(path, "w") as fh:
                    json.dump({"property": self.prop, "tier": self.tier, "record": rec}, fh, indent=1, sort_keys=True)
                    fh.write("\n")
                print("VIOLATION property=%s replay=%s" % (self.prop, path))
                print("  detail: %s" % json.dumps(rec, sort_keys=True)[:1500])
            rc = 1
        print("%s tier=%s level=%s wall=%.1fs exhaustive=%s violations=%d known=%d stats=%s" % (
            self.prop, self.tier, self.level, wall, self.exhaustive, len(self.violations),
            len(self.known_hits), json.dumps({k: v for k, v in self.stats.items()}, sort_keys=True)[:600]))
        return rc
