"""Driver-side helpers for Engine A (wmm)."""
import itertools

from lib import vf

SRC = ["engines/wmm/h_queues.cpp"]
FLAGS = ["-O2", "-g", "-I" + vf.VERIF + "/engines/wmm"]


def build():
    return vf.build("h_queues", SRC, FLAGS)


def seqs(alphabet, maxlen, minlen=1):
    out = []
    for n in range(minlen, maxlen + 1):
        for t in itertools.product(alphabet, repeat=n):
            out.append(",".join(t))
    return out


def chunks(lst, n):
    for i in range(0, len(lst), n):
        yield lst[i:i + n]


def bounded_jobs(exe, itypes, caps, percents, presets, maxlen, per_proc=200, deadline=60, budget=240):
    """caps: a power of two, or a pair (requested capacity, the power of two it must round up to)"""
    jobs = []
    for it in itypes:
        for capspec in caps:
            cap, rawcap = (capspec[1], capspec[0]) if isinstance(capspec, tuple) else (capspec, 0)
            sizes = sorted(set([1, max(1, cap // 4), cap // 2, cap - 1, cap, cap + 1]))
            ss = seqs(["w%d" % s for s in sizes], maxlen)
            # a batching producer (b = finished, committed later): nothing is visible before its commit, also after a refused
            # reservation
            q4, h = max(1, cap // 4), cap // 2
            ss += ["b%d,b%d,b%d,w%d" % (q4, q4, q4, h), "b%d,w%d,b1" % (q4, cap), "b%d,b%d,w1" % (h, h), "b1,b1,w%d,w%d" % (cap - 2, h)]
            for pct in percents:
                for preset in presets:
                    for ch in chunks(ss, per_proc):
                        jobs.append((exe, ["--mode", "bounded", "--itype", it, "--cap", cap, "--rawcap", rawcap, "--percent", pct, "--preset", preset,
                                           "--ops-batch", ";".join(ch), "--deadline", deadline, "--batch-budget", budget],
                                     (budget + deadline + 60) if budget else (deadline * len(ch) + 60)))
    return jobs


def unbounded_jobs(exe, pairs, maxlen, per_proc=40, deadline=60, with_shrink=True, budget=240):
    jobs = []
    for initial, mx in pairs:
        sizes = sorted(set([1, initial // 2, initial, initial + 1, 2 * initial, mx, mx + 1]))
        ops = ["w%d" % s for s in sizes]
        if with_shrink:
            # (targets above the current buffer are documented as ignored: never a larger buffer, never beyond the maximum)
            ops += ["s%d" % c for c in sorted(set([0, max(1, initial // 4), initial // 2, initial, 2 * mx]))]
        ss = [s for s in seqs(ops, maxlen) if "w" in s]
        # a batching producer across growth (the queue commits the buffer it leaves) and shrink
        i2 = max(1, initial // 2)
        ss += ["b%d,b%d,w%d" % (i2, i2, 2 * initial), "b1,b%d,w%d,b1,s0,w1" % (i2, initial + 1), "b%d,w%d,b1,w%d" % (i2, initial, initial + 1)]
        for ch in chunks(ss, per_proc):
            jobs.append((exe, ["--mode", "unbounded", "--initial", initial, "--max", mx, "--ops-batch", ";".join(ch),
                               "--deadline", deadline, "--batch-budget", budget],
                         (budget + deadline + 60) if budget else (deadline * len(ch) + 60)))
    return jobs


def tsan_guard(ctx, mode):
    """Free-running ThreadSanitizer pass over the same producer/consumer bodies with the real std::atomic (race net for
    the queues' plain private fields; the cooperative explorer cannot see those).  A report is a violation: TSan is exact
    for the races it observes."""
    try:
        exe = vf.build("tsan_queues", ["engines/wmm/tsan_queues.cpp"], ["-O1", "-g", "-fsanitize=thread"])
    except vf.HarnessError as e:
        ctx.notes["tsan_guard"] = "not available: %s" % str(e)[:200]
        return
    rr = vf.run(exe, ["--mode", mode, "--records", 200000 if mode == "bounded" else 100000], timeout=600,
                env={"TSAN_OPTIONS": "exitcode=66:halt_on_error=0"})
    ctx.absorb(rr, "tsan_queues", require_done=False)
    if rr.rc == 66 or "WARNING: ThreadSanitizer" in rr.stderr_tail:
        ctx.violation({"kind": "tsan-data-race-on-queue-fields", "case": "free-running tsan guard, mode=%s" % mode,
                       "detail": rr.stderr_tail[-800:]})
    elif rr.rc != 0:
        ctx.notes["tsan_guard"] = "guard run ended with rc %s" % rr.rc


# ----------------------------------------------------------------------------------------------
# whole-system variant (h_sys): real frontend + real BackendWorker under the shim

SYS_SRC = ["engines/wmm/h_sys.cpp"]


def build_sys():
    return vf.build("h_sys", SYS_SRC, ["-O2", "-g", "-I" + vf.VERIF + "/engines/wmm"])


def sys_job(exe, mode, sc, passes, ops, ops2="", deadline=600, extra=None):
    # on-demand polls while a frontend waits for the backend: one per statement that may be cached (a poll below the soft
    # limit writes one statement) plus a few
    if extra is None:
        extra = len(ops.split(",")) + len(ops2.split(",")) + 4
    args = ["--mode", mode, "--sc", sc, "--passes", passes, "--extra", extra, "--ops", ops, "--deadline", deadline]
    if ops2:
        args += ["--ops2", ops2]
    return (exe, args, deadline + 120)


def run_sys(ctx, jobs, what="h_sys"):
    for rr in vf.run_many(jobs):
        ctx.absorb(rr, what)


def is_sys_record(rec):
    return str(rec.get("mode", "")).startswith("sys")


def replay_sys(prop, rep):
    exe = build_sys()
    rec = rep["record"]
    args = []
    for kv in rec["config"].split():
        k, v = kv.split("=", 1)
        args += ["--" + k, v]
    rr = vf.run(exe, args + ["--replay", rec["case"]], timeout=300)
    bad = [r for r in rr.records if r.get("t") == "viol"]
    for x in bad:
        print("VIOLATION property=%s replay=(given) detail=%s" % (prop, x))
    return 1 if bad else 0


def run_loop_order():
    """The memory order with which the backend thread's loop reads its running flag, taken from the source (the whole-system
    harness replays that two-line loop: `while (flag.load(order)) _poll(); _exit();`).  Fails if the loop no longer looks like
    what the replica assumes."""
    import re
    src = open(vf.REPO + "/include/quill/backend/BackendWorker.h").read()
    m = re.search(r"while \(QUILL_LIKELY\(_is_worker_running\.load\(std::memory_order_(\w+)\)\)\)\s*\{\s*// main loop\s*QUILL_TRY \{ _poll\(\); \}", src)
    tail = re.search(r"// exit\s*QUILL_TRY \{ _exit\(\); \}", src)
    if not m or not tail:
        raise vf.HarnessError("BackendWorker::run's loop does not look like `while (_is_worker_running.load(order)) _poll(); _exit();` any more: "
                              "the replica in engines/wmm/h_queues.cpp (SysHarness::consumer) has to be revisited")
    return m.group(1)


def sys_stop_job(exe, sc, passes, ops, ops2="", deadline=600):
    args = ["--mode", "sys", "--sc", sc, "--passes", passes, "--extra", 0, "--runloop", run_loop_order(), "--ops", ops, "--deadline", deadline]
    if ops2:
        args += ["--ops2", ops2]
    return (exe, args, deadline + 120)
