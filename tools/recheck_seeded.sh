#!/bin/bash
# Re-runs every kept seeded change against the check that is recorded as catching it, in scratch copies
# (quill worktree /tmp/recheck_wt, /verif snapshot /tmp/verif_copy): prints one line per change.
set -u
WT=/tmp/recheck_wt
VC=/tmp/verif_copy
[ -d $WT ] || git -C /repo worktree add -q --detach $WT HEAD
rm -rf $VC; git -C /verif worktree add -q --detach $VC HEAD
cd $VC
for d in /verif/seeded/*/; do
  name=$(basename $d)
  if [ -n "${RECHECK_FILTER:-}" ] && ! echo "$name" | grep -Eq "$RECHECK_FILTER"; then continue; fi
  id=$(python3 -c "
import json,re,sys
m=json.load(open('$d/meta.json'))
r=re.search(r'try_mutant.sh (C\d\d)', m.get('checked_with',''))
print(r.group(1) if r else m['property'])")
  git -C $WT checkout -q -- . ; git -C $WT reset -q --hard
  if ! git -C $WT apply $d/patch.diff 2>/dev/null; then git -C $WT apply -3 $d/patch.diff >/dev/null 2>&1 || { echo "$name $id APPLY-FAILED"; continue; }; fi
  s=$(date +%s)
  VERIF_REPO=$WT ./check $id --tier quick > /tmp/recheck_$name.out 2>&1
  rc=$?
  echo "$name $id rc=$rc viol=$(grep -c VIOLATION /tmp/recheck_$name.out) $(( $(date +%s) - s ))s"
done
git -C $WT checkout -q -- . ; git -C $WT reset -q --hard
cd /verif; git -C /verif worktree remove --force $VC; git -C /repo worktree remove --force $WT
