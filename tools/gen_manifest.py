#!/usr/bin/env python3
"""Regenerates /verif/MANIFEST.json from the table below; a property is listed as a check iff
props/<id>.py exists, otherwise under not_applicable with the reason 'not implemented yet'."""
import json
import os
import subprocess

HERE = os.path.dirname(os.path.dirname(os.path.abspath(__file__)))

# id -> (engine, category, technique, level text, level note, design ref)
T = {
 "C01": ("wmm", "model_checking", "stateful DFS to closure over interleavings x read-from choices (view-based C++11 release/acquire/relaxed semantics) of the real BoundedSPSCQueueImpl",
         "Every interleaving and every admissible atomic-load value of a producer/consumer pair on the real queue template, for a grid of capacities, publish thresholds, wrap presets and record-size sequences; happens-before race detection on payload bytes.",
         "Shim std::atomic substituted by macro in the harness TU only; view-based semantics without promises (complete here: no relaxed cross-thread load feeds a store); plain private fields are covered by a free-running ThreadSanitizer guard run of the same bodies; capacities 8..64.", "4/C01"),
 "C02": ("wmm", "model_checking", "stateful DFS over interleavings x read-from choices of the real UnboundedSPSCQueue incl. grow/shrink/free",
         "Same explorer over the real unbounded queue with node allocation, switching and freeing tracked by an allocation monitor.",
         "As C01; node memory and buffers freed by the code under test are quarantined until the execution ends so that accesses to retired nodes are detected instead of crashing; every store is checked to be ordered after the previous writer (exactness of the history-based state key).", "4/C02"),
 "C03": ("opx+wmm", "model_checking", "preemption-bounded exhaustive schedule enumeration of real frontend threads + ManualBackendWorker under a baton scheduler; stateful DFS to closure at atomic-operation granularity (C++11 view semantics) over the real registration / log_statement / BackendWorker::_poll",
         "All schedules (up to the reported preemption bound) of small multi-thread logging scripts against the real backend with tiny queues/buffers and every soft/hard limit in the grid; exactly-once and per-thread order checked at recording sinks.",
         "Frontend calls are atomic steps; backend preemptible at the guarded yield points QUILL_VERIF_YIELD(1..5) and poll boundaries; sequentially consistent interleavings; coverage statement = all schedules with at most k preemptions (k and the number of alternatives beyond it are in the evidence).", "4/C03"),
 "C04": ("seqx", "exploration", "bounded exhaustive enumeration of argument type tuples x value alphabets against call-site formatting",
         "Every single/pair of argument types from the menu with every value of its alphabet is logged through the real frontend/backend and compared with fmtquill::format at the call site; originals destroyed before the backend runs.",
         "Type menu and value alphabets are finite; unordered containers compared as multisets; null C string normalised to empty.", "4/C04"),
 "C05": ("opx+seqx", "model_checking", "preemption-bounded exhaustive schedule enumeration with a virtual clock (stamp/enqueue split); deterministic long histories over the limit grid on bounded and unbounded queues",
         "All schedules of stamp/enqueue/clock-advance/backend steps within the bound; output must be timestamp-ordered whenever every enqueue honoured the grace period.",
         "System clock virtualised by interposition; TSC not controllable; user clock outside the claim.", "4/C05"),
 "C06": ("opx+wmm", "model_checking", "preemption-bounded exhaustive schedule enumeration with a probe at the instant flush_log() returns; stateful DFS to closure at atomic-operation granularity over the real flush_log / BackendWorker::_poll",
         "All schedules of loggers, flushers and backend steps within the bound; at flush return every earlier statement must be written and flushed.",
         "As C03; file visibility checked through a recording sink's flush marks and a real FileSink read back.", "4/C06"),
 "C07": ("crashx+wmm", "fault_enumeration", "exhaustive enumeration of crash point x fault kind x backend progress x thread order x buffering limits in child processes; Backend::stop() explored to closure at atomic-operation granularity (C++11 view semantics) against the backend thread's loop",
         "Every statement boundary, every stop/exit/signal kind, with the backend provably stuck after j writes or asleep; log file inspected from outside the dead process.",
         "Backend progress controlled at sink-write granularity by a gated sink; real Backend::start thread.", "4/C07"),
 "C08": ("opx+wmm", "model_checking", "preemption-bounded exhaustive schedule enumeration over dropping queues incl. enumerated operation scripts; drop counter and whole dropping-queue system explored to closure at atomic-operation granularity",
         "All schedules of small scripts on bounded/unbounded dropping queues; result==false iff never delivered; reported drop counts add up.",
         "As C03.", "4/C08"),
 "C09": ("wmm+opx", "model_checking", "exhaustive enumeration of (history, consumed prefix, request size) on the real queues + end-to-end schedules",
         "Every drained terminal state of small histories followed by every request size up to capacity must be granted; end to end a blocked call returns within the horizon.",
         "Small capacities; liveness expressed as 'granted after the consumer drained and committed'.", "4/C09"),
 "C10": ("opx+seqx", "model_checking", "exhaustive enumeration of fault position x fault kind over histories, with schedule enumeration; exhaustive enumeration of write-failure positions inside the real file / JSON / rotating sinks and in backtrace replays",
         "Every placement of unformattable statements / throwing sinks in small histories; all other statements delivered once in order, backend alive, flush returns.",
         "As C03.", "4/C10"),
 "C11": ("seqx", "exploration", "bounded exhaustive enumeration of argument type tuples / macro families with allocation and formatter-thread monitors",
         "Every listed type single/pair and macro family after warm-up: zero allocations on the caller; deferred formatters run on the backend thread only.",
         "Allocation monitor = replaced operator new/delete, malloc family, mmap, counted per thread.", "4/C11"),
 "C12": ("seqx", "exploration", "bounded exhaustive enumeration of patterns x specs x literals x messages against an independent reference formatter",
         "Cross product of attribute selections/orders, specs, literal separators, attribute values and newline arrangements, compared with an independent substitution reference.",
         "Reference implements fmt fill/align/width/precision for strings only.", "4/C12"),
 "C13": ("seqx", "model_checking", "explicit-state BFS over instant sequences (StringFromTime cache states) x patterns x zones vs strftime",
         "All patterns up to 3 tokens, all zones in the menu, BFS over instant sequences keyed by the cache fields; each rendering compared with libc strftime.",
         "libc strftime/localtime_r are the oracle.", "4/C13"),
 "C14": ("seqx", "model_checking", "explicit-state BFS over write/restart sequences on the real RotatingFileSink in a scratch directory",
         "All op sequences up to the depth bound for the configuration grid; statement fate tracked through the directory contents.",
         "tmpfs directory; timestamps supplied by the harness.", "4/C14"),
 "C15": ("seqx", "model_checking", "explicit-state BFS over timestamp-gap sequences x frequency/zone grid on the real RotatingFileSink",
         "All non-decreasing timestamp sequences from the gap alphabet; no file may straddle a configured rotation point.",
         "Grid computed independently with libc.", "4/C15"),
 "C16": ("seqx+opx", "model_checking", "exhaustive level/threshold/filter/override product and slot-reuse walk (in process) + preemption-bounded schedule enumeration of level/filter changes",
         "Complete product of statement level x logger level x sink threshold x filter set, plus interleavings with changes; written iff passes.",
         "As C03.", "4/C16"),
 "C17": ("opx+seqx+wmm", "model_checking", "preemption-bounded exhaustive schedule enumeration of log/remove/re-create/get with backend points (AddressSanitizer build at the lower bound, plain build with live asserts at the higher); explicit-state BFS over registry histories; stateful DFS to closure at atomic-operation granularity (C++11 view semantics) over real log / remove_logger(_blocking) / re-create vs BackendWorker::_poll",
         "All schedules within the bound; nothing lost, nothing freed in use (ASan), sinks destroyed exactly when unreferenced.",
         "As C03; ASan build.", "4/C17"),
 "C18": ("seqx", "model_checking", "explicit-state BFS to fixpoint on the real BacktraceStorage + exhaustive end-to-end histories through the real macros and backend",
         "Ring-level BFS to fixpoint for capacities 0..N plus every end-to-end history of backtrace/log/flush/init ops up to the depth bound against a reference deque.",
         "Ids opaque to the ring (exact canonicalisation).", "4/C18"),
 "C19": ("seqx", "model_checking", "exhaustive enumeration of template token sequences x first-use orders x values against an independent fmt-grammar scanner",
         "All templates up to 4 tokens, all first-use orders of up to 3 templates (cache states), value alphabet incl. separators; JSON lines parsed.",
         "Independent scanner follows fmt's replacement-field grammar.", "4/C19"),
 "C20": ("opx+wmm", "model_checking", "preemption-bounded exhaustive schedule enumeration + exhaustive sweep of thread counts; stateful DFS to closure at atomic-operation granularity (C++11 view semantics) over real registration / log / thread exit vs BackendWorker::_poll incl. context clean-up",
         "All schedules of short-lived threads vs backend within the bound; deterministic sweep N=0..300+ exits between idle periods; shrink histories.",
         "As C03.", "4/C20"),
}

def main():
    checks = []
    na = []
    for pid in sorted(T):
        eng, cat, tech, text, note, ref = T[pid]
        if os.path.exists(os.path.join(HERE, "props", pid.lower() + ".py")):
            checks.append({
                "property_id": pid,
                "quick_cmd": "./check %s --tier quick" % pid,
                "thorough_cmd": "./check %s --tier thorough" % pid,
                "evidence_file": "/verif/evidence/%s.json" % pid,
                "replay_cmd_template": "./check %s --replay {path}" % pid,
                "engine": eng,
                "level_claimed": {"category": cat, "text": text, "design_ref": "DESIGN.md section " + ref},
                "level_note": note,
                "technique": tech,
            })
        else:
            na.append({"property_id": pid, "reason": "check not implemented yet in this snapshot (planned: %s); not claimed" % tech})
    hooks_commits = []
    try:
        out = subprocess.run(["git", "-C", "/repo", "log", "--format=%h %s"], stdout=subprocess.PIPE, text=True).stdout
        for line in out.splitlines():
            if line.split(" ", 1)[1].startswith("verif-hook:"):
                hooks_commits.append(line.split()[0])
    except Exception:
        pass
    m = {
        "version": 1,
        "setup_cmd": "python3 tools/setup.py",
        "hooks": {
            "guard": "QUILL_VERIF",
            "enable": "-DQUILL_VERIF=1 on the harness compile lines (quill is header-only; harnesses are compiled from /repo/include on every check run)",
            "baseline_off_cmd": "cmake --build /repo/_build -j16 && ctest --test-dir /repo/_build -j8 --timeout 900",
            "source_commits": hooks_commits,
            "add_only": True,
        },
        "engines": [
            {"name": "wmm", "path": "engines/wmm", "serves_properties": ["C01", "C02", "C03", "C06", "C07", "C08", "C09", "C17", "C20"], "kind_free_text": "C++11 release/acquire view-based stateful explorer (atomic shim substituted by macro): h_queues over the real queue headers and ThreadContext counters; h_sys over the whole real frontend (registration, log_statement, flush_log, thread exit, logger removal, stop) and the real BackendWorker at atomic-operation granularity"},
            {"name": "opx", "path": "engines/opx", "serves_properties": ["C03", "C05", "C06", "C08", "C09", "C10", "C16", "C17", "C18", "C20"], "kind_free_text": "operation-level schedule explorer: real frontend threads + ManualBackendWorker, fork per execution, futex baton, virtual clock"},
            {"name": "seqx", "path": "engines/seqx", "serves_properties": ["C03", "C04", "C05", "C10", "C11", "C12", "C13", "C14", "C15", "C16", "C17", "C18", "C19"], "kind_free_text": "bounded exhaustive enumeration / explicit-state BFS of sequential components against reference oracles"},
            {"name": "crashx", "path": "engines/crashx", "serves_properties": ["C07"], "kind_free_text": "crash-point x fault x backend-progress x thread-order x flusher x buffering-limit enumeration in child processes"},
        ],
        "checks": checks,
        "not_applicable": na,
        "notes": "All checks run real quill code compiled from /repo/include at check time. See DESIGN.md.",
    }
    with open(os.path.join(HERE, "MANIFEST.json"), "w") as fh:
        json.dump(m, fh, indent=1)
        fh.write("\n")
    print("checks:", [c["property_id"] for c in checks])

if __name__ == "__main__":
    main()
