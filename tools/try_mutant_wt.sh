#!/bin/bash
# usage: tools/try_mutant_wt.sh <PROP> <abs patch.diff> [tier]
# Like try_mutant.sh but never touches /repo: the patch is applied in a scratch worktree of /repo HEAD and the live
# /verif check is pointed at it with VERIF_REPO. Evidence of the check is restored afterwards. Safe to run for several
# DIFFERENT properties at once.
set -u
PROP=$1; PATCH=$2; TIER=${3:-quick}
WT=/tmp/tm_wt_$$
git -C /repo worktree add -q --detach $WT HEAD || exit 2
cleanup() { git -C /repo worktree remove --force $WT >/dev/null 2>&1; }
trap cleanup EXIT
if ! git -C $WT apply --check "$PATCH" 2>/dev/null; then
  if ! git -C $WT apply -3 --check "$PATCH" 2>/dev/null; then echo "PATCH DOES NOT APPLY"; exit 3; fi
fi
git -C $WT apply "$PATCH" 2>/dev/null || git -C $WT apply -3 "$PATCH" >/dev/null 2>&1
cd /verif
cp -f evidence/$PROP.json /tmp/tm_evidence_$$.bak 2>/dev/null
OUT=/tmp/try_mutant_${PROP}_$$.out
VERIF_REPO=$WT ./check "$PROP" --tier "$TIER" > $OUT 2>&1
RC=$?
cp -f /tmp/tm_evidence_$$.bak evidence/$PROP.json 2>/dev/null; rm -f /tmp/tm_evidence_$$.bak
echo "prop=$PROP rc=$RC violations=$(grep -c '^VIOLATION' $OUT) out=$OUT"
grep -m2 -A1 '^VIOLATION' $OUT | cut -c1-500
tail -1 $OUT | cut -c1-300
