#!/usr/bin/env python3
"""Runs only the whole-system (h_sys) jobs of every check that has them, for one tier, in parallel, and prints per job:
wall time, executions, exhaustive?, violations.  (Timing / sanity tool; evidence comes from ./check.)"""
import concurrent.futures, importlib, json, os, subprocess, sys, time
sys.path.insert(0, os.path.dirname(os.path.dirname(os.path.abspath(__file__))))
from lib import vf, wmmlib
tier = sys.argv[1] if len(sys.argv) > 1 else "quick"
hs = wmmlib.build_sys()
jobs = []
for pid in ["c03", "c06", "c07", "c08", "c09", "c17", "c20"]:
    m = importlib.import_module("props." + pid)
    for j in m.sys_jobs(hs, tier):
        jobs.append((pid, j))
seen = set()
def one(x):
    pid, j = x
    t0 = time.time()
    rr = vf.run(j[0], j[1], timeout=j[2])
    st = [r for r in rr.records if r.get("t") == "stat"]
    viol = [r for r in rr.records if r.get("t") == "viol"]
    cap = [r for r in rr.records if r.get("t") in ("cap", "error")]
    ex = st[0]["executions"] if st else None
    return "%s %-90s %6.0fs exec=%s viol=%d cap=%d rc=%s" % (pid, " ".join(str(a) for a in j[1][:-2]), time.time() - t0, ex, len(viol), len(cap), rr.rc)
with concurrent.futures.ThreadPoolExecutor(max_workers=int(os.environ.get("SYS_WORKERS", "8"))) as ex:
    for line in ex.map(one, jobs):
        print(line, flush=True)
