#!/usr/bin/env python3
"""keep_mutant.py <ID> <A|B> <detected: yes|no> <which check / what it reported>
Copies a confirmed seeded change from /tmp/mut/out/<ID>/<X> to /verif/seeded/<ID>-<X>/ with an enriched meta.json."""
import json, os, shutil, sys
pid, x, detected, note = sys.argv[1], sys.argv[2], sys.argv[3], sys.argv[4]
src = "/tmp/mut/out/%s/%s" % (pid, x)
dst = "/verif/seeded/%s-%s" % (pid, x)
os.makedirs(dst, exist_ok=True)
for f in ("patch.diff", "demo.cpp"):
    shutil.copy(os.path.join(src, f), os.path.join(dst, f))
meta = json.load(open(os.path.join(src, "meta.json")))
conf = {}
for line in open(os.path.join(src, "confirm.txt")):
    if "=" in line and not line.startswith(" "):
        k, v = line.strip().split("=", 1)
        conf[k] = v
    elif "tests passed" in line:
        conf["suite_summary"] = line.strip()
meta["property"] = pid.split("_")[-1]
meta["confirmed_by_me"] = {
    "how": "tools/confirm_mutant.sh in scratch worktree /tmp/confirm_wt at /repo HEAD: patch applied, demo built and run on the original and the changed tree, full existing suite built and run (ctest -E unbounded_unlimited_queue)",
    "result": conf,
}
meta["checked_with"] = "tools/try_mutant.sh %s <patch> (git -C /repo apply, ./check %s --tier quick, git checkout)" % (sys.argv[5] if len(sys.argv) > 5 else pid.split("_")[-1], sys.argv[5] if len(sys.argv) > 5 else pid.split("_")[-1])
meta["detected_by_check"] = detected
meta["check_report"] = note
json.dump(meta, open(os.path.join(dst, "meta.json"), "w"), indent=1)
print("kept", dst)
