#!/bin/bash
# usage: [CONFIRM_SLOT=n] [CONFIRM_DEMO_FLAGS="-fsanitize=thread -g"] tools/confirm_mutant.sh <dir with patch.diff demo.cpp>
# (uses scratch worktree /tmp/confirm_wt$CONFIRM_SLOT; several slots may run at once)
# Confirms independently: patch applies to /repo HEAD, builds, existing suite passes, demo exits 0 without / non-zero with.
set -u
D=$1
SLOT=${CONFIRM_SLOT:-}
WT=/tmp/confirm_wt$SLOT
XF=${CONFIRM_DEMO_FLAGS:-}
J=${CONFIRM_JOBS:-8}
if [ ! -d $WT ]; then git -C /repo worktree add -q --detach $WT HEAD || exit 2; fi
cd $WT || exit 2
git checkout -q --detach $(git -C /repo rev-parse HEAD) 2>/dev/null
git checkout -q -- . ; git reset -q --hard
OUT=$D/confirm.txt
: > $OUT
echo "head=$(git rev-parse --short HEAD)" >> $OUT
# demo on original
g++ -std=c++17 -O1 -pthread -fno-access-control $XF -I$WT/include $D/demo.cpp -o /tmp/confirm_demo_orig$SLOT >> $OUT.build 2>&1
( cd /tmp && timeout 300 /tmp/confirm_demo_orig$SLOT > /tmp/confirm_demo_orig$SLOT.out 2>&1 ); echo "demo_original_rc=$?" >> $OUT
if git apply --check $D/patch.diff 2>/dev/null; then git apply $D/patch.diff; else git apply -3 $D/patch.diff >/dev/null 2>&1 || { echo "apply=FAILED" >> $OUT; exit 3; }; fi
echo "apply=ok" >> $OUT
g++ -std=c++17 -O1 -pthread -fno-access-control $XF -I$WT/include $D/demo.cpp -o /tmp/confirm_demo_mut$SLOT >> $OUT.build 2>&1
( cd /tmp && timeout 300 /tmp/confirm_demo_mut$SLOT > /tmp/confirm_demo_mut$SLOT.out 2>&1 ); echo "demo_mutated_rc=$?" >> $OUT
tail -3 /tmp/confirm_demo_mut$SLOT.out | cut -c1-300 >> $OUT
if [ ! -d $WT/_build ]; then cmake -G Ninja -S $WT -B $WT/_build -DCMAKE_BUILD_TYPE=RelWithDebInfo -DQUILL_BUILD_TESTS=ON > /dev/null 2>&1; fi
cmake --build $WT/_build -j$J > $OUT.suitebuild 2>&1; echo "suite_build_rc=$?" >> $OUT
ctest --test-dir $WT/_build -j$J --timeout 300 -E unbounded_unlimited_queue > $OUT.ctest 2>&1; RC=$?
if [ $RC -ne 0 ]; then
  # timing-based tests (stopwatch_tsc) fail now and then on a loaded machine: the failed ones are run once more, alone
  grep -A3 "tests FAILED" $OUT.ctest | tr '\n' ' ' | cut -c1-200 >> $OUT; echo >> $OUT
  ctest --test-dir $WT/_build -j1 --timeout 300 --rerun-failed > $OUT.ctest 2>&1; RC=$?
  echo "suite_rerun_of_failed_tests_alone=yes" >> $OUT
fi
echo "suite_rc=$RC" >> $OUT
grep "tests passed" $OUT.ctest >> $OUT
git checkout -q -- . ; git reset -q --hard
rm -f /tmp/confirm_demo_orig$SLOT /tmp/confirm_demo_mut$SLOT
cat $OUT
