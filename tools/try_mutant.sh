#!/bin/bash
# usage: tools/try_mutant.sh <PROP> <patch.diff> [tier]   - applies the patch to /repo, runs the check, reverts.
set -u
PROP=$1; PATCH=$2; TIER=${3:-quick}
cd /repo || exit 2
if ! git diff --quiet; then echo "repo dirty"; exit 2; fi
if ! git apply --check "$PATCH" 2>/dev/null; then
  if ! git apply -3 --check "$PATCH" 2>/dev/null; then echo "PATCH DOES NOT APPLY"; exit 3; fi
fi
git apply "$PATCH" || git apply -3 "$PATCH"
cd /verif
cp -f evidence/$PROP.json /tmp/try_mutant.evidence.bak 2>/dev/null
./check "$PROP" --tier "$TIER" > /tmp/try_mutant.out 2>&1
RC=$?
cp -f /tmp/try_mutant.evidence.bak evidence/$PROP.json 2>/dev/null
git -C /repo checkout -- . 
git -C /repo reset -q
echo "rc=$RC"; grep -c VIOLATION /tmp/try_mutant.out; grep -m3 -A1 VIOLATION /tmp/try_mutant.out | cut -c1-400; tail -1 /tmp/try_mutant.out | cut -c1-300
