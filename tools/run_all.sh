#!/bin/bash
# runs every registered check (quick by default) on the current tree, prints rc and wall time per property
# (works from whatever copy of /verif it is started in: `vp run` snapshots included)
TIER=${1:-quick}
cd "$(dirname "$0")/.." || exit 2
OUT=${RUN_ALL_OUT:-/tmp/run_all_$TIER}
mkdir -p $OUT
for id in ${RUN_ALL_IDS:-$(python3 -c "import json; print(' '.join(c['property_id'] for c in json.load(open('MANIFEST.json'))['checks']))")}; do
  s=$(date +%s.%N)
  ./check $id --tier $TIER > $OUT/$id.out 2>&1
  rc=$?
  e=$(date +%s.%N)
  printf "%s rc=%d %.0fs %s\n" $id $rc $(echo "$e - $s" | bc) "$(grep -c VIOLATION $OUT/$id.out) viol, $(grep -c KNOWN-FINDING $OUT/$id.out) known"
done
