#!/bin/bash
# runs every registered check (quick by default) on the current tree, prints rc and wall time per property
TIER=${1:-quick}
cd /verif
for id in $(python3 -c "import json; print(' '.join(c['property_id'] for c in json.load(open('MANIFEST.json'))['checks']))"); do
  s=$(date +%s.%N)
  ./check $id --tier $TIER > /tmp/run_all_$id.out 2>&1
  rc=$?
  e=$(date +%s.%N)
  printf "%s rc=%d %.0fs %s\n" $id $rc $(echo "$e - $s" | bc) "$(grep -c VIOLATION /tmp/run_all_$id.out) viol, $(grep -c KNOWN-FINDING /tmp/run_all_$id.out) known"
done
