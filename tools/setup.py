#!/usr/bin/env python3
"""Offline setup: verify the toolchain and pre-build the harnesses from /repo's current tree.
Pre-building is only a cache warm-up; every check rebuilds whatever changed by itself."""
import os
import subprocess
import sys

HERE = os.path.dirname(os.path.dirname(os.path.abspath(__file__)))
sys.path.insert(0, HERE)


def main():
    r = subprocess.run(["g++", "--version"], stdout=subprocess.PIPE, stderr=subprocess.STDOUT, text=True)
    if r.returncode != 0:
        print("g++ missing")
        return 1
    if not os.path.isdir("/repo/include/quill"):
        print("/repo/include/quill missing")
        return 1
    for d in ("build", "evidence", "replays"):
        os.makedirs(os.path.join(HERE, d), exist_ok=True)
    # warm-up builds (best effort, failures are reported by the checks themselves)
    import importlib
    import concurrent.futures
    mods = []
    for f in sorted(os.listdir(os.path.join(HERE, "props"))):
        if f.startswith("c") and f.endswith(".py"):
            mods.append(f[:-3])

    def warm(m):
        try:
            mod = importlib.import_module("props." + m)
            if hasattr(mod, "prebuild"):
                mod.prebuild()
            return m, "ok"
        except Exception as e:  # noqa
            return m, "warm-up failed: %s" % str(e)[:300]
    with concurrent.futures.ThreadPoolExecutor(max_workers=4) as ex:
        for m, st in ex.map(warm, mods):
            print(m, st)
    return 0


if __name__ == "__main__":
    sys.exit(main())
